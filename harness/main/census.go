//go:build verif

package main

import (
	"fmt"
	"sort"
	"strings"
)

// census: request generator health (status by method / bias set); `gen census quick <seed> <n> <dir>`
func init() {
	props["census"] = func(o *Out, r *Rng, n int, thorough bool) {
		stat := map[string][2]int{}
		msgs := map[string]int{}
		for c := 0; c < n; c++ {
			q := genRequest(r, ReqOpts{MaxBiases: 3})
			st, out := decideJSON(q.JSON())
			bs := append([]string{}, q.Biases...)
			sort.Strings(bs)
			for _, k := range []string{"m:" + q.Method, "b:" + strings.Join(bs, "+")} {
				s := stat[k]
				if st == 200 {
					s[0]++
				} else {
					s[1]++
				}
				stat[k] = s
			}
			if st != 200 {
				m := string(out)
				if len(m) > 70 {
					m = m[:70]
				}
				msgs[q.Method+" :: "+m]++
				_ = bs
			}
		}
		keys := []string{}
		for k := range stat {
			keys = append(keys, k)
		}
		sort.Strings(keys)
		for _, k := range keys {
			if strings.HasPrefix(k, "m:") || stat[k][1] > 0 {
				fmt.Printf("%-60s ok=%d err=%d\n", k, stat[k][0], stat[k][1])
			}
		}
		mk := []string{}
		for k := range msgs {
			mk = append(mk, k)
		}
		sort.Slice(mk, func(i, j int) bool { return msgs[mk[i]] > msgs[mk[j]] })
		for i, k := range mk {
			if i > 40 {
				break
			}
			fmt.Println(msgs[k], k)
		}
	}
}
