//go:build verif

package main

import (
	"github.com/Azbesciak/RealDecisionMaker/lib/model"
	"github.com/Azbesciak/RealDecisionMaker/lib/utils"
)

// Stage tests of the seven real bias listeners against Model/Listener.lean
// (used by C07; the listener operations are shared by C15, C18, C19).

func countingGen(seed int64) (utils.ValueGenerator, *int) {
	g := utils.RandomBasedSeedValueGenerator(seed)
	n := 0
	return func() float64 { n++; return g() }, &n
}

func listenerStages(o *Out, r *Rng, c int) {
	q := genRequest(r, ReqOpts{})
	dm := q.bind()
	d, msg := prepareDMP(dm)
	if msg != "" {
		o.count("listener:prepare-failed")
		return
	}
	l := biasListeners.Fetch(dm.PreferenceFunction)
	in := map[string]interface{}{"request": q.Body}
	m := Meta{Case: c, Input: in, Key: string(q.JSON())}
	o.count("listener:" + q.Method)
	// RankCriteriaAscending
	var ranked *model.WeightedCriteria
	msg = recoverErr(func() { ranked = (*l).RankCriteriaAscending(d) })
	m.Stage = "listener-rank"
	o.Corr(m, L(A("listener-rank"), dmpSX(d)), okSX(resSX(msg, func() SX { return wcritsSX(*ranked) })))
	// OnCriteriaRemoved with a random sub-list (random order) of the criteria
	keep := r.shuffled(q.Problem.critIds())
	keep = keep[:r.rangeInt(1, len(keep))]
	left := model.Criteria{}
	for _, id := range keep {
		for _, cr := range d.Criteria {
			if cr.Id == id {
				left = append(left, cr)
			}
		}
	}
	if r.chance(0.05) {
		left = append(left, model.Criterion{Id: "nope", Type: model.Gain})
	}
	var after model.MethodParameters
	msg = recoverErr(func() { after = (*l).OnCriteriaRemoved(&left, d.MethodParameters) })
	m.Stage = "listener-removed"
	o.Corr(m, L(A("listener-removed"), paramsSX(d.MethodParameters), critsSX(left)), okSX(resSX(msg, func() SX { return paramsSX(after) })))
	// OnCriterionAdded + Merge
	newC := model.Criterion{Id: "zz_new", Type: model.Gain, ValuesRange: &utils.ValueRange{Min: 0, Max: 1}}
	ref := d.Criteria[r.Intn(len(d.Criteria))]
	if r.chance(0.05) {
		ref = model.Criterion{Id: "nope", Type: model.Gain}
	}
	if r.chance(0.05) {
		newC.Id = d.Criteria[0].Id
	}
	seed := int64(r.Intn(1000))
	gen, used := countingGen(seed)
	var add model.AddedCriterionParams
	msg = recoverErr(func() { add = (*l).OnCriterionAdded(&newC, &ref, d.MethodParameters, gen) })
	m.Stage = "listener-added"
	o.Corr(m, L(A("listener-added"), paramsSX(d.MethodParameters), critSX(newC), critSX(ref), Nums(draws(seed, 16))),
		okSX(resSX(msg, func() SX { return L(additionSX(add), Int(int64(*used))) })))
	if msg == "" {
		var merged model.MethodParameters
		msg = recoverErr(func() { merged = (*l).Merge(d.MethodParameters, add) })
		m.Stage = "listener-merge"
		if msg != "" {
			o.count("listener-merge-err:" + q.Method)
		}
		o.Corr(m, L(A("listener-merge"), paramsSX(d.MethodParameters), additionSX(add)), okSX(resSX(msg, func() SX { return paramsSX(merged) })))
	}
}

func init() {
	props["listeners"] = func(o *Out, r *Rng, n int, thorough bool) {
		for c := 0; c < n; c++ {
			o.Cases++
			listenerStages(o, r, c)
		}
	}
}
