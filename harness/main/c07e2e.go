//go:build verif && (c07 || allprops)

package main

import (
	"encoding/json"
	"fmt"
	"math"
	"sort"
	"strings"

	"github.com/Azbesciak/RealDecisionMaker/lib/logic/biases/anchoring"
	criteria_concealment "github.com/Azbesciak/RealDecisionMaker/lib/logic/biases/criteria-concealment"
	criteria_mixing "github.com/Azbesciak/RealDecisionMaker/lib/logic/biases/criteria-mixing"
	criteria_omission "github.com/Azbesciak/RealDecisionMaker/lib/logic/biases/criteria-omission"
	"github.com/Azbesciak/RealDecisionMaker/lib/logic/biases/fatigue"
	preference_reversal "github.com/Azbesciak/RealDecisionMaker/lib/logic/biases/preference-reversal"
	aspect_elimination "github.com/Azbesciak/RealDecisionMaker/lib/logic/limited-rationality/aspect-elimination"
	"github.com/Azbesciak/RealDecisionMaker/lib/logic/limited-rationality/majority"
	"github.com/Azbesciak/RealDecisionMaker/lib/logic/limited-rationality/satisfaction"
	"github.com/Azbesciak/RealDecisionMaker/lib/logic/preference-func/electreIII"
	"github.com/Azbesciak/RealDecisionMaker/lib/model"
	criteria_bounding "github.com/Azbesciak/RealDecisionMaker/lib/model/criteria-bounding"
	"github.com/Azbesciak/RealDecisionMaker/lib/utils"
)

// End-to-end tie of C07 (stage "decide"): the whole DecisionMaker.MakeDecision, run through the real
// registries of main.go, against Model/Decide.lean `decide` on the same request.
//
//   (decide req seeds exp)          bit-exact: result entries (id, the values the method saw, evaluation
//                                   payload, links) and the biases list (name, probability, report or null)
//   (decide-some req seeds exp go)  aspect elimination whose final weights are tied: sort.Slice's comparator
//                                   draws random numbers for ties, the model answers for SOME weight-compatible order
//
// math.Exp is external to the repository (and differs from Lean's Float.exp in the last place for a fraction of
// the arguments).  The model takes `exp` as a parameter; the driver instantiates it with a finite piece of the
// graph of math.Exp: `exp` = the pairs (x, math.Exp(x)) the harness computes itself, by calling math.Exp, for the
// arguments the fired biases can have used (fatigue expFromZero: alpha*queryNumber; anchoring expFromZero:
// alpha*(±scaled difference) for every alternative x criterion x reference point of the report), Float.exp
// elsewhere.  Every pair is a true value of math.Exp whatever the code under test does, so the table cannot
// hide a defect; a missing pair can only produce a spurious last-place mismatch.  (A structural comparison
// within 1e-9 — op decide-close, kept in the driver — turned out too weak a tie: thresholds that coincide with
// a value by construction flip on a last-place difference.)
//
// The request enters the model as the harness sees it after JSON binding: criteria, alternatives, the method
// parameters printed after the real ParseParams, the bias props decoded with the real decoders.  Requests
// the code rejects must be rejected by the model (`(err)`), the registered finding classes included.

// ---------- the request ----------

// e2eSeedNeed collects, per seed, how many numbers of its stream the model may consume.
type e2eSeedNeed map[int64]int

func (s e2eSeedNeed) want(seed int64, k int) {
	if s[seed] < k {
		s[seed] = k
	}
}

func (s e2eSeedNeed) sx() SX {
	keys := make([]int64, 0, len(s))
	for k := range s {
		keys = append(keys, k)
	}
	sort.Slice(keys, func(i, j int) bool { return keys[i] < keys[j] })
	out := make(sxList, len(keys))
	for i, k := range keys {
		out[i] = L(Int(k), Nums(draws(k, s[k])))
	}
	return out
}

// e2eBiasSX: one entry of the request's biases list, props decoded the way the bias's Apply decodes them.
// exp reports whether the bias would evaluate math.Exp when it fires.
func e2eBiasSX(raw interface{}, nAlts, nCrit int, need e2eSeedNeed) (entry SX, name string, disabled bool, exp bool) {
	bm := asMap(raw)
	name, _ = bm["name"].(string)
	disabled, _ = bm["disabled"].(bool)
	prob := SX(A("none"))
	if _, ok := bm["applyProbability"]; ok {
		prob = Num(numField(bm, "applyProbability"))
	}
	props := bm["props"]
	var psx SX = L(A("bad"))
	switch name {
	case "criteriaOmission", "preferenceReversal":
		if cond, ordering, seed, msg := d1DecodeSplit(props); msg == "" {
			psx = L(A("split"), d1CondSX(cond), Str(ordering), Int(seed))
			need.want(seed, nCrit+2)
		}
	case "fatigue":
		fp := fatigue.FatigueParams{}
		cp := fatigue.ConstFatigueParams{}
		ep := fatigue.ExpFatigueParams{}
		bnd := criteria_bounding.DefaultParams()
		msg := recoverErr(func() {
			utils.DecodeToStruct(props, &fp)
			utils.DecodeToStruct(props, bnd)
			switch fp.Function {
			case fatigue.FatConstFunc:
				utils.DecodeToStruct(fp.Params, &cp)
			case fatigue.FatExpFromZero:
				utils.DecodeToStruct(fp.Params, &ep)
			}
		})
		if msg == "" {
			psx = L(A("fatigue"), Str(fp.Function), L(Num(cp.Value), Num(ep.Alpha), Num(ep.Multiplier), Int(ep.QueryNumber)),
				d1BoundingSX(bnd), Int(fp.RandomSeed))
			need.want(fp.RandomSeed, nAlts*nCrit+2)
			exp = fp.Function == fatigue.FatExpFromZero
		}
	case "criteriaConcealment", "criteriaMixing":
		psx = L(A("flat"), propsSX(props))
		need.want(seedOf(props, "newCriterionRandomSeed"), 2)
		need.want(seedOf(props, "randomSeed"), nAlts+24)
	case "anchoring":
		ap, _ := anchoringPropsSX(props)
		psx = L(A("anch"), ap)
		pm := asMap(props)
		app := asMap(pm["applier"])["params"]
		need.want(seedOf(app, "newCriterionRandomSeed"), 2)
		for i := int64(0); i < 3; i++ {
			need.want(seedOf(app, "randomSeed")+i, 24)
		}
		exp = isExp(pm["loss"]) || isExp(pm["gain"])
	}
	return L(Str(name), Bool(disabled), prob, psx), name, disabled, exp
}

// e2eMethodSeed: the randomSeed of the method's parsed parameters (0 for the methods without one)
func e2eMethodSeed(mp interface{}) int64 {
	x := rv(mp)
	if !x.IsValid() {
		return 0
	}
	if f := x.FieldByName("RandomSeed"); f.IsValid() {
		return f.Int()
	}
	return 0
}

type e2eReq struct {
	sx      SX
	seeds   SX
	expAt   []int // indices (among the enabled biases) of the biases that evaluate math.Exp when they fire
	enabled int
}

// e2eRequestSX prints the bound request for the model.  The method parameters are parsed by the real
// ParseParams of the registered method (a panic there, or an unregistered method, is `(none)`).
func e2eRequestSX(dm *model.DecisionMaker) *e2eReq {
	need := e2eSeedNeed{}
	nAlts := len(dm.KnownAlternatives)
	nCrit := len(dm.Criteria) + len(dm.Biases) + 1
	mp := SX(L(A("none")))
	var parsed interface{}
	if msg := recoverErr(func() {
		pf := funcs.Fetch(dm.PreferenceFunction)
		parsed = (*pf).ParseParams(dm)
	}); msg == "" {
		mp = L(A("some"), paramsSX(parsed))
		need.want(e2eMethodSeed(parsed), 2*nAlts+8)
	}
	q := &e2eReq{}
	bs := make(sxList, len(dm.Biases))
	for i, b := range dm.Biases {
		entry, _, disabled, exp := e2eBiasSX(b, nAlts, nCrit, need)
		bs[i] = entry
		if !disabled {
			if exp {
				q.expAt = append(q.expAt, q.enabled)
			}
			q.enabled++
		}
	}
	need.want(dm.BiasApplyRandomSeed, len(dm.Biases)+2)
	q.sx = L(Str(dm.PreferenceFunction), critsSX(dm.Criteria), altsSX(dm.KnownAlternatives), Strs(dm.ChoseToMake), mp, bs,
		Int(dm.BiasApplyRandomSeed))
	q.seeds = need.sx()
	return q
}

// ---------- the piece of math.Exp the request can have used ----------

type e2eExpTable map[uint64]float64

func (t e2eExpTable) add(x float64) {
	if !math.IsNaN(x) {
		t[math.Float64bits(x)] = math.Exp(x)
	}
}

func (t e2eExpTable) sx() SX {
	keys := make([]uint64, 0, len(t))
	for k := range t {
		keys = append(keys, k)
	}
	sort.Slice(keys, func(i, j int) bool { return keys[i] < keys[j] })
	out := make(sxList, len(keys))
	for i, k := range keys {
		out[i] = L(Num(math.Float64frombits(k)), Num(t[k]))
	}
	return out
}

func e2eExpAlpha(def interface{}) (float64, bool) {
	if !isExp(def) {
		return 0, false
	}
	f := utils.ExpFromZeroFunction{}
	if msg := recoverErr(func() { utils.DecodeToStruct(asMap(def)["params"], &f) }); msg != "" {
		return 0, false
	}
	return f.Alpha, true
}

// e2eExpArgs: arguments math.Exp can have been called with by the biases that fired in the traced run (same
// code, same numbers).  Which entry of the request a traced step belongs to does not matter: every pair added
// is a true value of math.Exp, so the arguments are computed for every enabled entry of the same bias.
func e2eExpArgs(dm *model.DecisionMaker, tr *trace) e2eExpTable {
	t := e2eExpTable{}
	var alphas []float64 // of every enabled anchoring entry with an expFromZero gain / loss
	for _, b := range dm.Biases {
		bm := asMap(b)
		if d, _ := bm["disabled"].(bool); d {
			continue
		}
		switch name, _ := bm["name"].(string); name {
		case "fatigue":
			fp := fatigue.FatigueParams{}
			ep := fatigue.ExpFatigueParams{}
			recoverErr(func() {
				utils.DecodeToStruct(bm["props"], &fp)
				if fp.Function == fatigue.FatExpFromZero {
					utils.DecodeToStruct(fp.Params, &ep)
					t.add(ep.Alpha * float64(ep.QueryNumber))
				}
			})
		case "anchoring":
			pm := asMap(bm["props"])
			if a, ok := e2eExpAlpha(pm["gain"]); ok {
				alphas = append(alphas, a)
			}
			if a, ok := e2eExpAlpha(pm["loss"]); ok {
				alphas = append(alphas, a)
			}
		}
	}
	if len(alphas) == 0 {
		return t
	}
	for _, st := range tr.Steps {
		rep, ok := st.Props.(anchoring.AnchoringResult)
		if !ok || st.In == nil || st.In.Live == nil {
			continue
		}
		for _, d := range rep.PerReferencePointsDifferences {
			for _, rp := range rep.ReferencePoints {
				for _, c := range st.In.Live.Criteria {
					sc, ok := rep.CriteriaScaling[c.Id]
					if !ok {
						continue
					}
					mult := float64(c.Multiplier())
					scaled := (d.Alternative.Criteria[c.Id]*mult - rp.Criteria[c.Id]*mult) * sc.Scale
					for _, a := range alphas {
						t.add(a * scaled)
						t.add(a * -scaled)
					}
				}
			}
		}
	}
	return t
}

// ---------- the response ----------

func e2ePayloadSX(ev interface{}) SX {
	switch v := ev.(type) {
	case model.EvaluationSingleValue:
		return L(A("util"), Num(v.Value))
	case electreIII.ElectreIIIEvaluation:
		return L(A("electre"), Int(int64(v.AscendingIndex)), Int(int64(v.DescendingIndex)))
	case majority.MajorityEvaluation:
		return L(A("maj"), Num(v.Value), Str(v.ComparedWith), Num(v.ComparedAlternativeValue))
	case aspect_elimination.AspectEliminationEvaluation:
		return L(A("asp"), Int(int64(v.ThresholdsIndex)), KMapF(v.NotSatisfiedThreshold))
	case satisfaction.SatisfactionEvaluation:
		return L(A("sat"), Int(int64(v.ThresholdsIndex)), KMapF(v.SatisfiedThresholds))
	}
	panic(fmt.Sprintf("e2e: unexpected evaluation type %T", ev))
}

func e2eReportSX(p model.BiasProps) SX {
	switch v := p.(type) {
	case nil:
		return L(A("null"))
	case criteria_omission.CriteriaOmissionResult:
		return L(A("omission"), critsSX(v.OmittedCriteria))
	case preference_reversal.PreferenceReversalResult:
		return L(A("reversal"), d1ReversedSX(v.ReversedPreferenceCriteria))
	case fatigue.FatigueResult:
		return L(A("fatigue"), d1FatigueReportSX(v))
	case criteria_concealment.CriteriaConcealmentResult:
		return L(A("conceal"), concealReportSX(&model.BiasedResult{Props: v}))
	case criteria_mixing.MixedCriterion:
		return L(A("mixing"), mixReportSX(&model.BiasedResult{Props: v}))
	case anchoring.AnchoringResult:
		return L(A("anchoring"), anchReportSX(v))
	}
	panic(fmt.Sprintf("e2e: unexpected bias report type %T", p))
}

// e2eResponseSX: (result biases) from the Go value MakeDecision returned
func e2eResponseSX(ch *model.DecisionMakerChoice) SX {
	res := make(sxList, len(ch.Result))
	for i, e := range ch.Result {
		res[i] = L(Str(e.Alternative.Id), KMapF(e.Alternative.Criteria), e2ePayloadSX(e.Evaluation), Strs(e.BetterThanOrSameAs))
	}
	bs := make(sxList, len(ch.Biases))
	for i, b := range ch.Biases {
		bp := b.(model.BiasParams)
		bs[i] = L(Str(bp.Name), Num(bp.ApplyProbability), e2eReportSX(bp.Props))
	}
	return L(res, bs)
}

// ---------- request variations the plain generator does not produce ----------

// e2eVary: disabled entries, and (rarely) requests the service must reject before any bias runs
func e2eVary(r *Rng, q *Req) string {
	if bl, ok := q.Body["biases"].([]interface{}); ok && r.chance(0.15) {
		bl[r.Intn(len(bl))].(J)["disabled"] = true
	}
	known := q.Body["knownAlternatives"].([]interface{})
	if r.chance(0.03) { // a value for a criterion that is not declared (accepted by the validation)
		known[r.Intn(len(known))].(J)["criteria"].(J)["zz_undeclared"] = 1.5
		return "undeclared-value"
	}
	if !r.chance(0.06) {
		return ""
	}
	crit := q.Body["criteria"].([]interface{})
	switch r.Intn(7) {
	case 0:
		q.Body["preferenceFunction"] = "noSuchMethod"
		return "unknown-method"
	case 1:
		q.Body["preferenceFunction"] = ""
		return "blank-method"
	case 2:
		if len(crit) >= 2 {
			crit[len(crit)-1].(J)["id"] = crit[0].(J)["id"]
			return "duplicate-criterion"
		}
	case 3:
		a := known[r.Intn(len(known))].(J)["criteria"].(J)
		for k := range a {
			delete(a, k)
			break
		}
		return "missing-value"
	case 4:
		q.Body["choseToMake"] = append(q.Body["choseToMake"].([]string), "nobody")
		return "unknown-chosen"
	case 5:
		if bl, ok := q.Body["biases"].([]interface{}); ok {
			bl[r.Intn(len(bl))].(J)["name"] = "noSuchBias"
			return "unknown-bias"
		}
	case 6:
		crit[r.Intn(len(crit))].(J)["valuesRange"] = J{"min": 2, "max": 2}
		return "invalid-range"
	}
	return ""
}

// ---------- the stage ----------

func e2eDecide(o *Out, r *Rng, c int) {
	q := genRequest(r, ReqOpts{MaxBiases: 4})
	varied := e2eVary(r, q)
	body := q.JSON()
	key := d1ShortKey(string(body))
	o.count("decide:method=" + q.Method)
	o.count(fmt.Sprintf("decide:biases=%d", len(q.Biases)))
	if varied != "" {
		o.count("decide:varied=" + varied)
	}

	// the real code, through the real registries
	var choice *model.DecisionMakerChoice
	dm := q.bind()
	msg := recoverErr(func() {
		choice = dm.MakeDecision(funcs, biasListeners, &biases, utils.RandomBasedSeedValueGenerator)
	})
	// the request as the model gets it (fresh binding: independent of what the call did to `dm`)
	req := e2eRequestSX(q.bind())
	// a traced run (same code behind recording wrappers) tells the finding class of the request and the
	// state that reached Evaluate
	tr := tracedDecide(q.bind())
	class := ""
	if varied == "" {
		class = taintClass(q, tr, len(tr.Steps))
	}

	exp := e2eExpArgs(q.bind(), tr).sx()
	m := Meta{Stage: "decide", Case: c, Key: key, Input: J{"request": q.Body}, Trivial: req.enabled == 0, Class: class}
	if msg != "" {
		o.count("decide:rejected")
		if class != "" {
			o.count("decide:rejected:" + class)
		}
		m.GoOut = truncate(msg, 200)
		o.Corr(m, L(A("decide"), req.sx, req.seeds, exp), okSX(L(A("err"))))
		return
	}
	// non-finite numbers (overflow of an exponential gain on a tiny declared range, …) cannot be serialised:
	// such a response is outside every theorem and oracle (as in c07.go / c09.go)
	if _, err := json.Marshal(choice); err != nil {
		if strings.Contains(key, "expFromZero") {
			o.count("decide:non-finite-output-from-exp")
			return
		}
		o.count("decide:non-finite-output")
	}
	o.count("decide:answered")
	goResp := L(A("ok"), e2eResponseSX(choice))
	expFired := false
	for _, i := range req.expAt {
		if i < len(choice.Biases) && choice.Biases[i].(model.BiasParams).Props != nil {
			expFired = true
		}
	}
	if expFired {
		o.count("decide:fired-bias-used-math.Exp")
		m.Tags = append(m.Tags, "exp")
	}
	// aspect elimination with tied weights in the state that reached Evaluate
	tied := false
	if tr.Eval != nil && q.Method == "aspectEliminationHeuristic" {
		if p, ok := tr.Eval.Live.MethodParameters.(aspect_elimination.AspectEliminationHeuristicParams); ok {
			tied = !heurWeightsDistinct(tr.Eval.Live.Criteria, p.Weights)
		}
	}
	fired := 0
	for _, b := range choice.Biases {
		if b.(model.BiasParams).Props != nil {
			fired++
		}
	}
	o.count(fmt.Sprintf("decide:fired=%d", fired))
	if tied {
		o.count("decide:mode=some(tied-aspect-weights)")
		m.Tags = append(m.Tags, "tied-aspect-weights")
		o.Corr(m, L(A("decide-some"), req.sx, req.seeds, exp, goResp), okSX(L(A("ok"), A("some"))))
	} else {
		o.count("decide:mode=exact")
		o.Corr(m, L(A("decide"), req.sx, req.seeds, exp), okSX(goResp))
	}
}

// e2eDecideAll: the end-to-end cases of a run (three per four cases of the budget)
func e2eDecideAll(o *Out, r *Rng, n int) {
	for c := 0; c < n; c++ {
		if c%4 != 0 {
			e2eDecide(o, r, c)
		}
	}
}
