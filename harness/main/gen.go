//go:build verif

package main

import (
	"encoding/json"
	"math"
	"sort"
	"strings"

	"github.com/Azbesciak/RealDecisionMaker/lib/model"
	"github.com/Azbesciak/RealDecisionMaker/lib/utils"
)

// ---------- structured problem generator (repo's own types) ----------

type Problem struct {
	Criteria model.Criteria
	Known    []model.AlternativeWithCriteria
	Chosen   []string // choseToMake
}

type ProbOpts struct {
	MaxCrit, MaxAlt int
	AllGain         bool
	NoRanges        bool
	AllConsidered   bool // force choseToMake = known
	MinCrit         int
}

func genProblem(r *Rng, o ProbOpts) *Problem {
	if o.MaxCrit == 0 {
		o.MaxCrit = 5
	}
	if o.MaxAlt == 0 {
		o.MaxAlt = 7
	}
	if o.MinCrit == 0 {
		o.MinCrit = 1
	}
	nc := r.rangeInt(o.MinCrit, o.MaxCrit)
	na := r.rangeInt(1, o.MaxAlt)
	p := &Problem{}
	cids := ids("c", nc)
	vmode := r.Intn(6)
	for _, id := range ids("a", na) {
		w := model.Weights{}
		for _, c := range cids {
			switch vmode {
			case 0:
				w[c] = float64(r.Intn(4))
			case 1:
				w[c] = float64(r.Intn(21)) / 2
			default:
				w[c] = r.value()
			}
		}
		p.Known = append(p.Known, model.AlternativeWithCriteria{Id: id, Criteria: w})
	}
	if r.chance(0.03) && na >= 2 { // ids that differ only in case are different ids
		p.Known[na-1].Id = "A0"
	}
	if r.chance(0.1) && na >= 2 { // identical alternatives
		p.Known[na-1].Criteria = copyW(p.Known[0].Criteria)
	}
	for _, id := range cids {
		c := model.Criterion{Id: id, Type: model.Gain}
		if !o.AllGain && r.chance(0.35) {
			c.Type = model.Cost
		} else if !o.AllGain && r.chance(0.08) {
			// the type is a free string: only the exact "cost" is a cost criterion, anything else (README: gain is
			// the default) counts as gain
			c.Type = model.CriterionType([]string{"", "", "Cost", "loss"}[r.Intn(4)])
		}
		if !o.NoRanges && r.chance(0.3) {
			lo, hi := math.Inf(1), math.Inf(-1)
			for _, a := range p.Known {
				lo, hi = math.Min(lo, a.Criteria[id]), math.Max(hi, a.Criteria[id])
			}
			pad := float64(r.Intn(3))
			if hi-lo+2*pad <= 0 {
				pad = 1
			}
			c.ValuesRange = &utils.ValueRange{Min: lo - pad, Max: hi + pad}
		}
		p.Criteria = append(p.Criteria, c)
	}
	names := make([]string, na)
	for i, a := range p.Known {
		names[i] = a.Id
	}
	if r.chance(0.3) { // the listing order of the known alternatives is not the id order
		listed := make([]model.AlternativeWithCriteria, 0, na)
		for _, id := range r.shuffled(names) {
			for _, a := range p.Known {
				if a.Id == id {
					listed = append(listed, a)
				}
			}
		}
		p.Known = listed
	}
	if r.chance(0.2) && nc >= 2 { // nor is the listing order of the criteria
		byId := map[string]model.Criterion{}
		for _, c := range p.Criteria {
			byId[c.Id] = c
		}
		for i, id := range r.shuffled(cids) {
			p.Criteria[i] = byId[id]
		}
	}
	sh := r.shuffled(names)
	k := na
	if !o.AllConsidered && r.chance(0.5) {
		k = r.rangeInt(1, na)
	}
	p.Chosen = sh[:k]
	if r.chance(0.3) {
		sort.Strings(p.Chosen)
	}
	return p
}

func (p *Problem) considered() []model.AlternativeWithCriteria {
	return *model.FetchAlternatives(&p.Known, &p.Chosen)
}

func (p *Problem) notConsidered() []model.AlternativeWithCriteria {
	var res []model.AlternativeWithCriteria
	for _, a := range p.Known {
		if !utils.ContainsString(&p.Chosen, &a.Id) {
			res = append(res, a)
		}
	}
	return res
}

func (p *Problem) critIds() []string {
	l := make([]string, len(p.Criteria))
	for i, c := range p.Criteria {
		l[i] = c.Id
	}
	return l
}

// ---------- JSON request generator (what the HTTP service receives) ----------

type J = map[string]interface{}

var methodNames = []string{"weightedSum", "owa", "choquetIntegral", "electreIII", "majorityHeuristic", "aspectEliminationHeuristic", "satisfactionHeuristic"}
var biasNames = []string{"criteriaOmission", "preferenceReversal", "fatigue", "criteriaConcealment", "criteriaMixing", "anchoring"}
var orderings = []string{"", "weakest", "strongest", "random", "weakestByProbability", "strongestByProbability"}
var refTypes = []string{"", "importanceRatio", "randomUniform", "randomWeighted"}

func (r *Rng) weight() float64 {
	switch r.Intn(4) {
	case 0:
		return float64(r.rangeInt(1, 4))
	case 1:
		return float64(r.rangeInt(1, 8)) / 4
	default:
		return math.Round(r.Float64()*1000)/100 + 0.01
	}
}

func weightsJSON(r *Rng, cids []string, distinct bool) J {
	w := J{}
	if r.chance(0.03) && len(cids) <= 8 {
		// pairwise distinct weights that differ by less than any tolerance used anywhere (1e-6 / 1e-5)
		base := float64(r.rangeInt(1, 3)) / 2
		step := []float64{3e-7, 2e-10}[r.Intn(2)]
		for i, j := range r.Perm(len(cids)) {
			w[cids[i]] = base + float64(j)*step
		}
		return w
	}
	used := map[float64]bool{}
	for _, c := range cids {
		v := r.weight()
		if len(cids) > 12 && !distinct {
			v = float64(1 + r.Intn(3)) // many criteria: tie groups of importance
		}
		for distinct && used[v] {
			v += 0.125
		}
		used[v] = true
		w[c] = v
	}
	return w
}

func powerSetKeys(r *Rng, cids []string) []string {
	var keys []string
	n := len(cids)
	for mask := 1; mask < 1<<uint(n); mask++ {
		var sub []string
		for j := 0; j < n; j++ {
			if mask&(1<<uint(j)) != 0 {
				sub = append(sub, cids[j])
			}
		}
		sub = r.shuffled(sub)
		keys = append(keys, strings.Join(sub, ","))
	}
	return keys
}

func choquetWeightsJSON(r *Rng, cids []string) J {
	w := J{}
	for _, k := range powerSetKeys(r, cids) {
		w[k] = float64(r.Intn(9)) / 8
	}
	return w
}

func thresholdJSON(kind string, v float64) J {
	return J{"a": 0, "b": v}
}

func electreCriteriaJSON(r *Rng, cids []string) J {
	ec := J{}
	for _, c := range cids {
		e := J{"k": r.weight()}
		q := float64(r.Intn(3)) / 2
		p := q + float64(r.rangeInt(1, 4))/2
		v := p + float64(r.rangeInt(1, 6))/2
		mode := r.Intn(6)
		if mode != 0 && r.chance(0.7) {
			e["q"] = J{"a": 0, "b": q}
		}
		if mode >= 2 {
			e["p"] = J{"a": 0, "b": p}
			if mode >= 4 {
				e["v"] = J{"a": 0, "b": v}
			}
		}
		ec[c] = e
	}
	return ec
}

func levelsJSON(r *Rng, p *Problem, increasing bool) (string, J) {
	k := r.Intn(3)
	if k == 2 {
		n := r.rangeInt(0, 4)
		// thresholds per criterion between observed min/max, ordered from easy to hard (aspect) or hard to easy (satisfaction)
		ts := make([]interface{}, n)
		for i := 0; i < n; i++ {
			frac := float64(i+1) / float64(n+1)
			if !increasing {
				frac = 1 - frac
			}
			t := J{}
			for _, c := range p.Criteria {
				lo, hi := math.Inf(1), math.Inf(-1)
				for _, a := range p.Known {
					lo, hi = math.Min(lo, a.Criteria[c.Id]), math.Max(hi, a.Criteria[c.Id])
				}
				if c.Type == model.Cost {
					t[c.Id] = hi - frac*(hi-lo)
				} else {
					t[c.Id] = lo + frac*(hi-lo)
				}
			}
			ts[i] = t
		}
		return "thresholds", J{"thresholds": ts}
	}
	coefs := []float64{0.5, 0.25, 0.125, 0.75, 0.3, 0.1, 0.9}
	par := J{"coefficient": coefs[r.Intn(len(coefs))]}
	grid := []float64{0, 0.125, 0.25, 0.5, 0.75, 1}
	lo, hi := grid[r.Intn(len(grid))], grid[r.Intn(len(grid))]
	if !increasing && lo == 0 {
		lo = 0.0625
	}
	if !increasing && hi == 0 {
		hi = 1
	}
	par["minValue"], par["maxValue"] = lo, hi
	if increasing {
		return []string{"idealMultipliedCoefficient", "idealAdditiveCoefficient"}[k], par
	}
	return []string{"idealMultipliedCoefficient", "idealSubtractiveCoefficient"}[k], par
}

func (r *Rng) currentChoice(p *Problem) string {
	switch r.Intn(3) {
	case 0:
		return ""
	case 1:
		return p.Chosen[r.Intn(len(p.Chosen))]
	default:
		return p.Known[r.Intn(len(p.Known))].Id
	}
}

func methodParamsJSON(r *Rng, method string, p *Problem) J {
	cids := p.critIds()
	switch method {
	case "weightedSum":
		w := weightsJSON(r, cids, false)
		if r.chance(0.15) {
			w["zz_extra"] = 1.5
		}
		return J{"weights": w}
	case "owa":
		return J{"weights": weightsJSON(r, cids, false)}
	case "choquetIntegral":
		return J{"weights": choquetWeightsJSON(r, cids)}
	case "electreIII":
		mp := J{"electreCriteria": electreCriteriaJSON(r, cids)}
		if r.chance(0.3) {
			b := float64(r.Intn(5)) / 8
			a := -float64(r.Intn(5)) / 8
			if a+b < 0 {
				a = -b
			}
			mp["electreDistillation"] = J{"a": a, "b": b}
		}
		return mp
	case "majorityHeuristic":
		mp := J{"weights": weightsJSON(r, cids, false), "randomSeed": r.Intn(1000)}
		if c := r.currentChoice(p); c != "" {
			mp["currentChoice"] = c
		}
		if r.chance(0.4) {
			mp["randomAlternativesOrdering"] = true
		}
		if d := []string{"", "allow", "current", "newer", "random"}[r.Intn(5)]; d != "" {
			mp["drawResolution"] = d
		}
		return mp
	case "aspectEliminationHeuristic":
		fn, par := levelsJSON(r, p, true)
		mp := J{"function": fn, "params": par, "randomSeed": r.Intn(1000), "weights": weightsJSON(r, cids, r.chance(0.8) || len(cids) > 8)}
		if r.chance(0.1) && len(cids) >= 2 && len(cids) <= 8 {
			// pairwise distinct weights that are almost equal: the examination order is still the strict order of the
			// weights (no tolerance), whatever order the criteria are listed in
			w := J{}
			for i, j := range r.Perm(len(cids)) {
				w[cids[i]] = 0.5 + float64(j)*5e-7
			}
			mp["weights"] = w
		}
		if r.chance(0.4) {
			mp["randomAlternativesOrdering"] = true
		}
		return mp
	case "satisfactionHeuristic":
		fn, par := levelsJSON(r, p, false)
		mp := J{"function": fn, "params": par, "randomSeed": r.Intn(1000)}
		if c := r.currentChoice(p); c != "" {
			mp["currentChoice"] = c
		}
		if r.chance(0.4) {
			mp["randomAlternativesOrdering"] = true
		}
		return mp
	}
	panic("unknown method " + method)
}

func (r *Rng) boundingInto(j J) {
	if r.chance(0.4) {
		j["allowedValuesRangeScaling"] = []float64{1, 0.5, 2, 1.5}[r.Intn(4)]
	}
	if r.chance(0.3) {
		j["disallowNegativeValues"] = true
	}
}

func (r *Rng) refCritInto(j J) {
	if t := refTypes[r.Intn(len(refTypes))]; t != "" {
		j["referenceCriterionType"] = t
	}
	if r.chance(0.5) {
		j["newCriterionImportance"] = float64(r.Intn(5)) / 4
	}
	if r.chance(0.7) {
		j["newCriterionRandomSeed"] = r.Intn(1000)
	}
}

func funcDefJSON(r *Rng) J {
	if r.chance(0.7) {
		return J{"function": "linear", "params": J{"a": float64(r.Intn(5)) / 4, "b": float64(r.Intn(3)) / 8}}
	}
	return J{"function": "expFromZero", "params": J{"alpha": float64(r.rangeInt(1, 4)) / 2, "multiplier": float64(r.rangeInt(1, 4)) / 4}}
}

func biasPropsJSON(r *Rng, name string, p *Problem) J {
	switch name {
	case "criteriaOmission", "preferenceReversal":
		pr := J{"ratio": []float64{0, 0.25, 1.0 / 3, 0.5, 0.6, 0.75, 1}[r.Intn(7)]}
		if name == "criteriaOmission" { // keep at least one criterion in most cases
			pr["max"] = r.rangeInt(0, 2)
		} else if r.chance(0.3) {
			pr["max"] = r.rangeInt(0, 3)
		}
		if r.chance(0.2) {
			pr["min"] = r.Intn(2)
			if mx, ok := pr["max"].(int); ok && mx < pr["min"].(int) {
				pr["max"] = pr["min"]
			}
		}
		if o := orderings[r.Intn(len(orderings))]; o != "" {
			pr["ordering"] = o
		}
		pr["randomSeed"] = r.Intn(1000)
		if r.chance(0.1) {
			delete(pr, "randomSeed")
		}
		if r.chance(0.05) {
			delete(pr, "ratio")
		}
		return pr
	case "fatigue":
		pr := J{"randomSeed": r.Intn(1000)}
		if r.chance(0.7) {
			pr["function"] = "const"
			pr["params"] = J{"value": []float64{0, 0.125, 0.5, 1, 2}[r.Intn(5)]}
		} else {
			pr["function"] = "expFromZero"
			pr["params"] = J{"alpha": float64(r.Intn(4)) / 8, "multiplier": float64(r.Intn(4)) / 2, "queryNumber": r.Intn(6)}
		}
		// optional keys are sometimes left out (the defaults are part of the behaviour, and a decoder that keeps
		// state between requests shows only on an omitted key)
		for _, k := range sortedJKeys(pr["params"].(J)) {
			if r.chance(0.2) {
				delete(pr["params"].(J), k)
			}
		}
		if r.chance(0.1) {
			delete(pr, "randomSeed")
		}
		r.boundingInto(pr)
		return pr
	case "criteriaConcealment":
		pr := J{"randomSeed": r.Intn(1000)}
		if r.chance(0.5) {
			pr["newCriterionScaling"] = []float64{0.5, 1, 2, -1}[r.Intn(4)]
		}
		r.refCritInto(pr)
		r.boundingInto(pr)
		return pr
	case "criteriaMixing":
		pr := J{"randomSeed": r.Intn(1000)}
		if r.chance(0.6) {
			pr["mixingRatio"] = float64(r.Intn(5)) / 4
		}
		r.refCritInto(pr)
		return pr
	case "anchoring":
		n := r.rangeInt(1, 3)
		var aa []interface{}
		for i := 0; i < n; i++ {
			a := J{"alternative": p.Known[r.Intn(len(p.Known))].Id}
			if r.chance(0.6) {
				a["coefficient"] = float64(r.rangeInt(1, 6)) / 2
			}
			aa = append(aa, a)
		}
		applier := J{"function": "inline", "params": J{"applyOnNotConsidered": r.chance(0.5)}}
		if r.chance(0.35) {
			delete(applier["params"].(J), "applyOnNotConsidered")
		}
		if r.chance(0.4) {
			ap := J{"randomSeed": r.Intn(1000)}
			if r.chance(0.2) {
				delete(ap, "randomSeed")
			}
			r.refCritInto(ap)
			applier = J{"function": "newCriterion", "params": ap}
		}
		r.boundingInto(applier["params"].(J))
		return J{"anchoringAlternatives": aa, "loss": funcDefJSON(r), "gain": funcDefJSON(r),
			"referencePoints": J{"function": []string{"ideal", "nadir"}[r.Intn(2)]}, "applier": applier}
	}
	panic("unknown bias " + name)
}

type Req struct {
	Method  string
	Problem *Problem
	Biases  []string
	Body    J
}

type ReqOpts struct {
	Methods        []string
	Biases         []string // pool; nil = all
	MaxBiases      int
	Prob           ProbOpts
	NoProb         bool    // applyProbability always omitted
	ExtraAltKeys   float64 // probability of an undeclared attribute on every alternative
	ExtraWeightKey float64 // probability of a weight for a criterion that is not declared (majority / aspect elimination ignore it)
}

func problemJSON(p *Problem) (crit []interface{}, known []interface{}) {
	for _, c := range p.Criteria {
		cj := J{"id": c.Id, "type": string(c.Type)}
		if c.Type == "" {
			delete(cj, "type")
		}
		if c.ValuesRange != nil {
			cj["valuesRange"] = J{"min": c.ValuesRange.Min, "max": c.ValuesRange.Max}
		}
		crit = append(crit, cj)
	}
	for _, a := range p.Known {
		vals := J{}
		for k, v := range a.Criteria {
			vals[k] = v
		}
		known = append(known, J{"id": a.Id, "criteria": vals})
	}
	return
}

func genRequest(r *Rng, o ReqOpts) *Req {
	methods := o.Methods
	if methods == nil {
		methods = methodNames
	}
	method := methods[r.Intn(len(methods))]
	po := o.Prob
	if method == "choquetIntegral" {
		po.AllGain = true
		if po.MaxCrit == 0 || po.MaxCrit > 4 {
			po.MaxCrit = 4
		}
	}
	if method != "choquetIntegral" && method != "aspectEliminationHeuristic" && po.MaxCrit != 1 && r.chance(0.04) {
		// (not for Choquet — 2^n capacities — nor aspect elimination, whose checker enumerates examination orders)
		// many criteria (sort.Slice / sort.SliceStable differ only above 12 elements), few weight levels below
		po.MinCrit, po.MaxCrit = 13, 16
	}
	p := genProblem(r, po)
	crit, known := problemJSON(p)
	if o.ExtraAltKeys > 0 && method != "owa" && method != "choquetIntegral" && method != "weightedSum" && r.chance(o.ExtraAltKeys) {
		// alternatives may carry more attributes than there are criteria (owa and Choquet reject them; the weighted-sum
		// listener looks every attribute up in the weights, so criterion-ranking biases fail there — observation, §11.6)
		for i, a := range known {
			a.(J)["criteria"].(J)["zz_note"] = float64(i + 1)
			p.Known[i].Criteria["zz_note"] = float64(i + 1)
		}
	}
	body := J{"preferenceFunction": method, "criteria": crit, "knownAlternatives": known,
		"choseToMake": append([]string{}, p.Chosen...), "methodParameters": methodParamsJSON(r, method, p),
		"biasApplyRandomSeed": []int{0, 1, 2, 3, 4, 5, 6, 7}[r.Intn(8)] * r.Intn(12500)}
	if o.ExtraWeightKey > 0 && (method == "majorityHeuristic" || method == "aspectEliminationHeuristic") && r.chance(o.ExtraWeightKey) {
		// a stale weight for a criterion the request does not declare: both heuristics and every criteria ordering
		// ignore it (the weighted criteria are built from the declared criteria)
		if w, ok := body["methodParameters"].(J)["weights"].(J); ok {
			w["zz_stale"] = []float64{0.0625, 1.5, 4.75}[r.Intn(3)]
		}
	}
	pool := o.Biases
	if pool == nil {
		pool = biasNames
	}
	nb := 0
	if o.MaxBiases > 0 {
		nb = r.Intn(o.MaxBiases + 1)
	}
	var bl []interface{}
	var names []string
	for i := 0; i < nb; i++ {
		name := pool[r.Intn(len(pool))]
		b := J{"name": name, "props": biasPropsJSON(r, name, p)}
		if !o.NoProb && r.chance(0.25) {
			b["applyProbability"] = []float64{0, 0.25, 0.5, 0.75, 1}[r.Intn(5)]
		}
		bl = append(bl, b)
		names = append(names, name)
	}
	if bl != nil {
		body["biases"] = bl
	}
	return &Req{Method: method, Problem: p, Biases: names, Body: body}
}

func (q *Req) JSON() []byte {
	b, err := json.Marshal(q.Body)
	if err != nil {
		panic(err)
	}
	return b
}

// bind decodes the JSON body the way gin's ShouldBindJSON does (encoding/json into the struct).
func (q *Req) bind() *model.DecisionMaker {
	var dm model.DecisionMaker
	if err := json.Unmarshal(q.JSON(), &dm); err != nil {
		panic(err)
	}
	return &dm
}
