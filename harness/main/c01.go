//go:build verif && (c01 || allprops)

package main

import (
	limited_rationality "github.com/Azbesciak/RealDecisionMaker/lib/logic/limited-rationality"
	"github.com/Azbesciak/RealDecisionMaker/lib/logic/limited-rationality/majority"
	"github.com/Azbesciak/RealDecisionMaker/lib/logic/preference-func/electreIII"
	"github.com/Azbesciak/RealDecisionMaker/lib/model"
)

// C01: every decision is a complete, well-formed ranking.
//  stages (corr, bit-exact): the four link constructors on generated shapes
//     ranking (utility)            -> C04's stage, re-run here on tie-heavy lists
//     sequential-ranking           -> limited_rationality.PrepareSequentialRanking
//     majority-ranking             -> majority.prepareRanking (overlay export) on k-way / j-way tie groups
//     evaluate-ranking             -> electreIII.EvaluateRanking on index vectors
//  spec (Lean check-c01) on every constructor output and on whole responses of all seven methods
//  with bias sequences (expected ids = choseToMake + currentChoice)

func linksSX(rk model.AlternativesRanking) SX {
	out := make(sxList, len(rk))
	for i, e := range rk {
		out[i] = L(Str(e.Alternative.Id), Strs(e.BetterThanOrSameAs))
	}
	return out
}

func altResults(ids []string) model.AlternativeResults {
	res := make(model.AlternativeResults, len(ids))
	for i, id := range ids {
		res[i] = model.AlternativeResult{Alternative: model.AlternativeWithCriteria{Id: id, Criteria: model.Weights{}}, Evaluation: i}
	}
	return res
}

func init() {
	props["C01"] = func(o *Out, r *Rng, n int, thorough bool) {
		maxN := 8
		if thorough {
			maxN = 12
		}
		for c := 0; c < n; c++ {
			o.Cases++
			switch c % 5 {
			case 0: // utility ranking
				names, vals := genValueList(r, maxN)
				in := rankingInput(names, vals)
				rk := in.Ranking()
				inSX := make(sxList, len(names))
				for i := range names {
					inSX[i] = L(Str(names[i]), Num(vals[i]))
				}
				m := Meta{Case: c, Stage: "ranking", Input: map[string]interface{}{"ids": names, "values": vals}, Key: "rk" + sxString(inSX), Trivial: len(names) < 2, GoOut: rankingJSON(rk)}
				// no correspondence line here on purpose: the order/links of the utility ranking are C04's
				// tie; C01 only needs well-formedness, decided by the spec on Go's output
				_ = inSX
				o.Spec(m, L(A("check-c01"), Strs(names), linksSX(*rk)))
				o.count("ctor:ranking")
			case 1: // sequential
				names := r.shuffled(ids("a", r.rangeInt(0, maxN)))
				rk := limited_rationality.PrepareSequentialRanking(altResults(names), names)
				m := Meta{Case: c, Stage: "sequential-ranking", Input: names, Key: "seq" + sxString(Strs(names)), Trivial: len(names) < 2, GoOut: rankingJSON(&rk)}
				o.Corr(m, L(A("sequential-ranking"), Strs(names)), okSX(linksSX(rk)))
				o.Spec(m, L(A("check-c01"), Strs(names), linksSX(rk)))
				o.count("ctor:sequential")
			case 2: // majority groups: k-way tie group followed by j-way group, …
				names := r.shuffled(ids("a", r.rangeInt(1, maxN)))
				var groups [][]model.AlternativeResult
				var gsx sxList
				shape := ""
				for i := 0; i < len(names); {
					k := r.rangeInt(1, 4)
					if i+k > len(names) {
						k = len(names) - i
					}
					groups = append(groups, altResults(names[i:i+k]))
					gsx = append(gsx, Strs(names[i:i+k]))
					shape += itoa(k)
					i += k
				}
				var rk *model.AlternativesRanking
				msg := recoverErr(func() { rk = majority.C01PrepareRanking(groups) })
				m := Meta{Case: c, Stage: "majority-ranking", Input: map[string]interface{}{"groups_worst_first": gsx.String()}, Key: "maj" + sxString(gsx), Trivial: len(names) < 2}
				if msg != "" {
					o.Oracle(m, false, "prepareRanking panicked: "+msg)
					continue
				}
				m.GoOut = rankingJSON(rk)
				o.Corr(m, L(A("majority-ranking"), gsx), okSX(linksSX(*rk)))
				o.Spec(m, L(A("check-c01"), Strs(names), linksSX(*rk)))
				if len(shape) > 3 {
					shape = shape[:3] + "+"
				}
				o.count("majority-group-shape:" + shape)
			case 3: // ELECTRE pre-orders
				names := r.shuffled(ids("a", r.rangeInt(1, maxN)))
				asc, desc := make([]int, len(names)), make([]int, len(names))
				k := r.rangeInt(1, len(names))
				for i := range names {
					asc[i], desc[i] = r.rangeInt(1, k), r.rangeInt(1, k)
				}
				alts := make([]model.AlternativeWithCriteria, len(names))
				for i, id := range names {
					alts[i] = model.AlternativeWithCriteria{Id: id, Criteria: model.Weights{}}
				}
				rk := electreIII.EvaluateRanking(&asc, &desc, &alts)
				out := make(sxList, len(*rk))
				for i, e := range *rk {
					ev := e.Evaluation.(electreIII.ElectreIIIEvaluation)
					out[i] = L(Str(e.Alternative.Id), Int(int64(ev.AscendingIndex)), Int(int64(ev.DescendingIndex)), Strs(e.BetterThanOrSameAs))
				}
				m := Meta{Case: c, Stage: "evaluate-ranking", Input: map[string]interface{}{"ids": names, "asc": asc, "desc": desc}, Key: "ev" + sxString(Ints(asc)) + sxString(Ints(desc)), Trivial: len(names) < 2, GoOut: rankingJSON(rk)}
				o.Corr(m, L(A("evaluate-ranking"), Ints(asc), Ints(desc), Strs(names)), okSX(out))
				o.Spec(m, L(A("check-c01"), Strs(names), linksSX(*rk)))
				o.count("ctor:evaluate-ranking")
			default: // whole responses, all methods, bias sequences
				q := genRequest(r, ReqOpts{MaxBiases: 3})
				blankCurrent := ""
				if r.chance(0.25) {
					// the case that needs three things at once: a heuristic with a current choice OUTSIDE choseToMake
					// and a bias that makes the listener rebuild the method parameters (criteria removed / added)
					q = genRequest(r, ReqOpts{MaxBiases: 2, Methods: []string{"majorityHeuristic", "satisfactionHeuristic"}, Prob: ProbOpts{MinCrit: 2}})
					if len(q.Problem.Known) >= 2 {
						if len(q.Problem.Chosen) == len(q.Problem.Known) {
							q.Problem.Chosen = q.Problem.Chosen[:len(q.Problem.Chosen)-1]
							q.Body["choseToMake"] = append([]string{}, q.Problem.Chosen...)
						}
						for _, a := range q.Problem.Known {
							if !heurContains(q.Problem.Chosen, a.Id) {
								q.Body["methodParameters"].(J)["currentChoice"] = a.Id
							}
						}
						if r.chance(0.15) {
							// an id is free text: one made of white space only is still an id ("a current choice is given")
							cur := q.Body["methodParameters"].(J)["currentChoice"].(string)
							blank := []string{" ", "\t", "  "}[r.Intn(3)]
							for _, a := range q.Body["knownAlternatives"].([]interface{}) {
								if a.(J)["id"] == cur {
									a.(J)["id"] = blank
								}
							}
							q.Body["methodParameters"].(J)["currentChoice"] = blank
							blankCurrent = blank
						}
						name := []string{"criteriaOmission", "criteriaOmission", "criteriaConcealment", "criteriaMixing"}[r.Intn(4)]
						pr := biasPropsJSON(r, name, q.Problem)
						if name == "criteriaOmission" {
							pr["ratio"], pr["max"] = 0.5, len(q.Problem.Criteria)-1
							delete(pr, "min")
						}
						bl, _ := q.Body["biases"].([]interface{})
						q.Body["biases"] = append([]interface{}{J{"name": name, "props": pr}}, bl...)
						o.count("e2e-current-choice-outside+listener-rebuild")
					}
				}
				st, _ := decideJSON(q.JSON())
				o.count("e2e:" + q.Method)
				if st != 200 {
					o.count("e2e-rejected")
					continue
				}
				dm := q.bind()
				choice := dm.MakeDecision(funcs, biasListeners, &biases, seededGen)
				expected := append([]string{}, q.Problem.Chosen...)
				if cur, ok := q.Body["methodParameters"].(J)["currentChoice"].(string); ok && cur != "" &&
					(q.Method == "majorityHeuristic" || q.Method == "satisfactionHeuristic") {
					expected = append(expected, cur)
					o.count("e2e-current-choice")
				}
				expected = uniq(expected)
				if blankCurrent != "" {
					// ids with white space do not travel through the line protocol: the core clause decided on the Go side
					got := []string{}
					for _, e := range choice.Result {
						got = append(got, e.Alternative.Id)
					}
					mb := Meta{Case: c, Stage: "response-ids", Input: map[string]interface{}{"request": q.Body}, Key: string(q.JSON()), GoOut: got}
					o.Oracle(mb, sameSet(got, expected), "the result does not hold exactly one entry per alternative to choose from (plus the current choice)")
					o.count("e2e-blank-current-choice")
					continue
				}
				m := Meta{Case: c, Stage: "response", Input: map[string]interface{}{"request": q.Body}, Key: string(q.JSON()), Trivial: len(expected) < 2, GoOut: rankingJSON(&choice.Result)}
				o.Spec(m, L(A("check-c01"), Strs(expected), linksSX(choice.Result)))
			}
		}
	}
}
