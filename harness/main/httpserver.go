//go:build verif

package main

import (
	"bytes"
	"fmt"
	"io"
	"net"
	"net/http"
	"os"
	"os/exec"
	"strings"
	"time"
)

// A real server process: the same binary started WITHOUT RDM_VERIF, so main() of httpClient/main.go
// runs unmodified (gin, recover, JSON binding).  Used by C10 and C20.
type server struct {
	cmd    *exec.Cmd
	port   int
	errLog string
	client *http.Client
}

func freePort() int {
	l, err := net.Listen("tcp", "127.0.0.1:0")
	if err != nil {
		panic(err)
	}
	defer l.Close()
	return l.Addr().(*net.TCPAddr).Port
}

func startServer(dir string) (*server, error) {
	bin := os.Getenv("RDM_HARNESS_BIN")
	if bin == "" {
		bin = os.Args[0]
	}
	var last error
	for attempt := 0; attempt < 5; attempt++ {
		port := freePort()
		errLog := fmt.Sprintf("%s/server-%d.stderr", dir, port)
		ef, err := os.Create(errLog)
		if err != nil {
			return nil, err
		}
		cmd := exec.Command(bin)
		env := []string{}
		for _, e := range os.Environ() {
			if !strings.HasPrefix(e, "RDM_VERIF=") && !strings.HasPrefix(e, "PORT=") {
				env = append(env, e)
			}
		}
		cmd.Env = append(env, fmt.Sprintf("PORT=%d", port), "GIN_MODE=release", "GORACE=halt_on_error=0")
		cmd.Stdout = nil
		cmd.Stderr = ef
		cmd.Dir = dir
		if err := cmd.Start(); err != nil {
			last = err
			continue
		}
		s := &server{cmd: cmd, port: port, errLog: errLog, client: &http.Client{Timeout: 8 * time.Second}}
		up := false
		for i := 0; i < 100; i++ {
			time.Sleep(50 * time.Millisecond)
			if s.alive() {
				up = true
				break
			}
		}
		if up {
			return s, nil
		}
		s.stop()
		last = fmt.Errorf("server did not come up on port %d", port)
	}
	return nil, last
}

func (s *server) url(path string) string { return fmt.Sprintf("http://127.0.0.1:%d%s", s.port, path) }

func (s *server) post(body []byte) (int, []byte, error) {
	resp, err := s.client.Post(s.url("/api/decide"), "application/json", bytes.NewReader(body))
	if err != nil {
		return 0, nil, err
	}
	defer resp.Body.Close()
	b, err := io.ReadAll(resp.Body)
	return resp.StatusCode, b, err
}

func (s *server) get(path string) (int, []byte, error) {
	resp, err := s.client.Get(s.url(path))
	if err != nil {
		return 0, nil, err
	}
	defer resp.Body.Close()
	b, err := io.ReadAll(resp.Body)
	return resp.StatusCode, b, err
}

var probeBody = []byte(`{"preferenceFunction":"weightedSum","criteria":[{"id":"c","type":"gain"}],"knownAlternatives":[{"id":"a","criteria":{"c":1}}],"choseToMake":["a"],"methodParameters":{"weights":{"c":1}}}`)

// alive: a fixed trivial valid request is answered 200
func (s *server) alive() bool {
	st, _, err := s.post(probeBody)
	return err == nil && st == 200
}

func (s *server) exited() bool {
	return s.cmd.ProcessState != nil
}

func (s *server) stop() {
	if s.cmd.Process != nil {
		s.cmd.Process.Kill()
		s.cmd.Wait()
	}
}

func (s *server) raceReports() int {
	b, _ := os.ReadFile(s.errLog)
	return bytes.Count(b, []byte("WARNING: DATA RACE"))
}

func (s *server) stderrTail(n int) string {
	b, _ := os.ReadFile(s.errLog)
	if len(b) > n {
		b = b[len(b)-n:]
	}
	return string(b)
}
