//go:build verif && (c16 || allprops)

package main

import (
	"fmt"
	"math"

	preference_reversal "github.com/Azbesciak/RealDecisionMaker/lib/logic/biases/preference-reversal"
	"github.com/Azbesciak/RealDecisionMaker/lib/model"
)

// C16 stages:
//   reversal-apply : biases["preferenceReversal"].Apply(orig, cur, props, l)  vs Lean reversalApply (bit-exact)
//   spec           : check-c16 on Go's output, fed with the ordering the real resolver returned
//   oracle         : applying the same reversal (ordering "random", same seed => same criteria) twice restores
//                    the data: exactly on dyadic grids, else 1e-9 relative; input state untouched

func d1IsGridValue(v float64) bool { return math.Abs(v) <= 1<<20 && v*4 == math.Trunc(v*4) }

// d1AllOnGrid: every value and every declared range bound is a multiple of 1/4 (mirroring is then exact)
func d1AllOnGrid(d *model.DecisionMakingParams) bool {
	for _, a := range d.AllAlternatives() {
		for _, v := range a.Criteria {
			if !d1IsGridValue(v) {
				return false
			}
		}
	}
	for _, c := range d.Criteria {
		if c.ValuesRange != nil && (!d1IsGridValue(c.ValuesRange.Min) || !d1IsGridValue(c.ValuesRange.Max)) {
			return false
		}
	}
	return true
}

func d1AltsClose(a, b []model.AlternativeWithCriteria, exact bool, ranges map[string]float64) (bool, string) {
	if len(a) != len(b) {
		return false, "number of alternatives differs"
	}
	for i := range a {
		if a[i].Id != b[i].Id || len(a[i].Criteria) != len(b[i].Criteria) {
			return false, "alternative " + a[i].Id + " changed shape"
		}
		for k, v := range a[i].Criteria {
			w, ok := b[i].Criteria[k]
			if !ok {
				return false, "alternative " + a[i].Id + " lost " + k
			}
			if exact {
				if v != w {
					return false, fmt.Sprintf("%s.%s: %v became %v (dyadic data, exact comparison)", a[i].Id, k, v, w)
				}
			} else if math.Abs(v-w) > 1e-9*math.Max(1, math.Max(math.Abs(v), ranges[k])) {
				return false, fmt.Sprintf("%s.%s: %v became %v", a[i].Id, k, v, w)
			}
		}
	}
	return true, ""
}

func init() {
	props["C16"] = func(o *Out, r *Rng, n int, thorough bool) {
		ro := ReqOpts{ExtraAltKeys: 0.06}
		if thorough {
			ro.Prob = ProbOpts{MaxCrit: 6, MaxAlt: 8}
		}
		for c := 0; c < n; c++ {
			o.Cases++
			bc := d1GenBiasCase(r, ro, 0.3)
			cur := bc.cur
			nc := len(cur.Criteria)
			pr := d1GenSplitProps(r, nc, false)
			props := d1JsonValue(pr)
			key := d1ShortKey(string(bc.q.JSON()) + d1PropsKey(pr) + d1PropsKey(bc.pre))
			m := Meta{Case: c, Input: bc.input("preferenceReversal", pr), Key: key}
			o.count("method=" + bc.q.Method)
			if bc.pre != nil {
				o.count("after=" + bc.pre["name"].(string))
			}
			if len(cur.NotConsideredAlternatives) == 0 {
				o.count("considered=known")
			} else {
				o.count("considered<known")
			}
			declared := 0
			for _, cr := range cur.Criteria {
				if cr.ValuesRange != nil {
					declared++
				}
			}
			o.count(fmt.Sprintf("declared-ranges=%d/%d", declared, nc))
			cond, ordering, seed, dmsg := d1DecodeSplit(props)
			if dmsg != "" {
				o.count("props-undecodable")
				continue
			}
			o.count("ordering=" + ordering)
			ds := draws(seed, nc+2)
			curSX := dmpSX(cur)

			res, amsg := d1ApplyBias("preferenceReversal", bc.orig, cur, props, bc.listener)
			var rep []preference_reversal.ReversedPreferenceCriterion
			m.Stage = "reversal-apply"
			if amsg != "" {
				o.count("apply:panic")
			} else {
				rep = res.Props.(preference_reversal.PreferenceReversalResult).ReversedPreferenceCriteria
				o.count(fmt.Sprintf("apply:reversed=%d", len(rep)))
				ids := []string{}
				for _, e := range rep {
					ids = append(ids, e.Id)
				}
				m.GoOut = J{"reversed": ids}
			}
			m.Trivial = amsg != "" || len(rep) == 0
			o.Corr(m, L(A("reversal-apply"), d1CondSX(cond), Str(ordering), curSX, Nums(ds)),
				okSX(resSX(amsg, func() SX { return L(dmpSX(res.DMP), d1ReversedSX(rep)) })))
			if amsg != "" {
				continue
			}
			if sxString(dmpSX(cur)) != sxString(curSX) {
				mm := m
				mm.Stage = "reversal-input-untouched"
				o.Oracle(mm, false, "Apply changed the state it was given")
			}
			// --- spec, with the ordering the real resolver reports for the same state and props
			ordered, omsg := d1OrderWith(ordering, cur, props, bc.listener)
			if omsg == "" {
				m.Stage = "reversal-spec"
				o.Spec(m, L(A("check-c16"), d1CondSX(cond), critsSX(*ordered), curSX, dmpSX(res.DMP), d1ReversedSX(rep)))
			}
			// --- involution on the real code: same criteria twice (ordering "random" depends on the declared
			// criteria and the seed only)
			pr2 := J{}
			for k, v := range pr {
				pr2[k] = v
			}
			pr2["ordering"] = "random"
			p2 := d1JsonValue(pr2)
			once, m1 := d1ApplyBias("preferenceReversal", bc.orig, cur, p2, bc.listener)
			if m1 != "" {
				continue
			}
			twice, m2 := d1ApplyBias("preferenceReversal", bc.orig, once.DMP, p2, bc.listener)
			mm := m
			mm.Stage = "reversal-involution"
			mm.Input = bc.input("preferenceReversal (applied twice)", pr2)
			if m2 != "" {
				o.Oracle(mm, false, "second application panicked: "+m2)
				continue
			}
			r1 := once.Props.(preference_reversal.PreferenceReversalResult).ReversedPreferenceCriteria
			r2 := twice.Props.(preference_reversal.PreferenceReversalResult).ReversedPreferenceCriteria
			same := len(r1) == len(r2)
			ranges := map[string]float64{}
			for i := 0; same && i < len(r1); i++ {
				same = r1[i].Id == r2[i].Id
				ranges[r1[i].Id] = math.Max(math.Abs(r1[i].ValuesRange.Min), math.Abs(r1[i].ValuesRange.Max))
			}
			if !same {
				o.Oracle(mm, false, "the second application selected other criteria")
				continue
			}
			exact := d1AllOnGrid(cur)
			if exact {
				o.count("involution:exact-grid")
			} else {
				o.count("involution:tolerance")
			}
			ok, why := d1AltsClose(cur.ConsideredAlternatives, twice.DMP.ConsideredAlternatives, exact, ranges)
			if ok {
				ok, why = d1AltsClose(cur.NotConsideredAlternatives, twice.DMP.NotConsideredAlternatives, exact, ranges)
			}
			o.Oracle(mm, ok, "reversing twice does not restore the data: "+why)
		}
	}
}
