//go:build verif

package main

import (
	"encoding/json"

	"github.com/Azbesciak/RealDecisionMaker/lib/model"
	"github.com/Azbesciak/RealDecisionMaker/lib/utils"
)

// Traced run of the real pipeline: the real biases and the real method are wrapped (same
// identifiers) so that the state handed from stage to stage is snapshotted at the moment it is
// handed over.  MakeDecision / processBiases themselves run unmodified.

type stateSnap struct {
	SX       string // dmpSX at snapshot time (alternatives, criteria, method parameters)
	Criteria []string
	Co, Nc   []model.AlternativeWithCriteria // deep copies
	Live     *model.DecisionMakingParams     // the live object (to detect later mutation)
}

func snapState(d *model.DecisionMakingParams) *stateSnap {
	if d == nil {
		return nil
	}
	s := &stateSnap{SX: sxString(dmpSX(d)), Co: copyAlts(d.ConsideredAlternatives), Nc: copyAlts(d.NotConsideredAlternatives), Live: d}
	for _, c := range d.Criteria {
		s.Criteria = append(s.Criteria, c.Id)
	}
	return s
}

type traceStep struct {
	Name      string
	Original  *stateSnap
	In, Out   *stateSnap
	Props     model.BiasProps // live report object
	PropsJSON string          // report as JSON at the moment Apply returned
	Panic     string
}

type trace struct {
	Steps   []*traceStep
	Eval    *stateSnap // state that reached Evaluate
	Result  string     // JSON of the ranking at the moment Evaluate returned
	Choice  *model.DecisionMakerChoice
	Err     string
	DmAfter *model.DecisionMaker
}

type tracingBias struct {
	inner model.Bias
	tr    *trace
}

func (t *tracingBias) Identifier() string { return t.inner.Identifier() }
func (t *tracingBias) Apply(original, current *model.DecisionMakingParams, props *model.BiasProps, l *model.BiasListener) *model.BiasedResult {
	st := &traceStep{Name: t.inner.Identifier(), Original: snapState(original), In: snapState(current)}
	t.tr.Steps = append(t.tr.Steps, st)
	var res *model.BiasedResult
	func() {
		defer func() {
			if e := recover(); e != nil {
				st.Panic = "panic"
				panic(e)
			}
		}()
		res = t.inner.Apply(original, current, props, l)
	}()
	st.Out = snapState(res.DMP)
	st.Props = res.Props
	if b, err := json.Marshal(res.Props); err == nil {
		st.PropsJSON = string(b)
	}
	return res
}

type tracingPF struct {
	inner model.PreferenceFunction
	tr    *trace
}

func (c *tracingPF) Identifier() string                              { return c.inner.Identifier() }
func (c *tracingPF) MethodParameters() interface{}                   { return c.inner.MethodParameters() }
func (c *tracingPF) ParseParams(dm *model.DecisionMaker) interface{} { return c.inner.ParseParams(dm) }
func (c *tracingPF) Evaluate(d *model.DecisionMakingParams) *model.AlternativesRanking {
	c.tr.Eval = snapState(d)
	res := c.inner.Evaluate(d)
	if b, err := json.Marshal(res); err == nil {
		c.tr.Result = string(b)
	}
	return res
}

// tracedDecide runs dm.MakeDecision with wrapped registries.
func tracedDecide(dm *model.DecisionMaker) *trace {
	tr := &trace{}
	bm := model.BiasMap{}
	for k, b := range biases {
		bm[k] = &tracingBias{inner: b, tr: tr}
	}
	fs := model.PreferenceFunctions{}
	for _, f := range funcs.Functions {
		fs.Functions = append(fs.Functions, &tracingPF{inner: f, tr: tr})
	}
	tr.Err = recoverErr(func() {
		tr.Choice = dm.MakeDecision(fs, biasListeners, &bm, utils.RandomBasedSeedValueGenerator)
	})
	tr.DmAfter = dm
	return tr
}

func altsEqual(a, b []model.AlternativeWithCriteria) bool {
	if len(a) != len(b) {
		return false
	}
	for i := range a {
		if a[i].Id != b[i].Id || len(a[i].Criteria) != len(b[i].Criteria) {
			return false
		}
		for k, v := range a[i].Criteria {
			w, ok := b[i].Criteria[k]
			if !ok || w != v {
				return false
			}
		}
	}
	return true
}

// liveUnchanged: the live object a snapshot was taken from still prints the same
func (s *stateSnap) liveUnchanged() bool {
	return s == nil || sxString(dmpSX(s.Live)) == s.SX
}

func altByID(as []model.AlternativeWithCriteria) map[string]model.Weights {
	m := map[string]model.Weights{}
	for _, a := range as {
		m[a.Id] = a.Criteria
	}
	return m
}

func weightsEq(a, b map[string]float64) bool {
	if len(a) != len(b) {
		return false
	}
	for k, v := range a {
		if w, ok := b[k]; !ok || w != v {
			return false
		}
	}
	return true
}
