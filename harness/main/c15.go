//go:build verif && (c15 || allprops)

package main

import (
	"encoding/json"
	"fmt"
	"math"
	"sort"
	"strings"

	criteria_omission "github.com/Azbesciak/RealDecisionMaker/lib/logic/biases/criteria-omission"
	"github.com/Azbesciak/RealDecisionMaker/lib/model"
	criteria_ordering "github.com/Azbesciak/RealDecisionMaker/lib/model/criteria-ordering"
	criteria_splitting "github.com/Azbesciak/RealDecisionMaker/lib/model/criteria-splitting"
	"github.com/Azbesciak/RealDecisionMaker/lib/utils"
)

// Work package D1 (C15 omission, C16 reversal, C17 fatigue): shared helpers + C15.
//
// C15 stages (real code reached through the registries of main.go):
//   split-validate : criteria_splitting.Parse(&props)                        vs Lean SplitCond.validate
//   split          : cond.SplitCriteriaByOrdering(criteria)                  vs Lean SplitCond.split
//   order          : criteriaOrdering[name].OrderCriteria(dmp, props, l)     vs Lean orderCriteria  (5 resolvers + default + unknown)
//   omission-apply : biases["criteriaOmission"].Apply(orig, cur, props, l)   vs Lean omissionApply
//   spec           : check-c15-order, check-c15 on Go's output (exact rationals)
//   oracle         : strongest = reverse(weakest) on the real resolvers; reduced-problem metamorphic on MakeDecision

// ---------- shared: a generated request bound and prepared the way MakeDecision does ----------

// ---------- shared: split condition / ordering props ----------

// ---------- C15: the reduced-problem oracle on MakeDecision ----------

// d1ReducedRequest deletes the omitted criteria from criteria, alternatives and method parameters and
// lists the remaining criteria in the order `kept`.
func d1ReducedRequest(body J, kept []string, omitted []string) J {
	out := d1DeepCopyJSON(body).(map[string]interface{})
	gone := map[string]bool{}
	for _, o := range omitted {
		gone[o] = true
	}
	byId := map[string]interface{}{}
	for _, c := range out["criteria"].([]interface{}) {
		byId[c.(map[string]interface{})["id"].(string)] = c
	}
	var crit []interface{}
	for _, k := range kept {
		crit = append(crit, byId[k])
	}
	out["criteria"] = crit
	for _, a := range out["knownAlternatives"].([]interface{}) {
		vals := a.(map[string]interface{})["criteria"].(map[string]interface{})
		for _, k := range sortedJKeys(vals) {
			if gone[k] {
				delete(vals, k)
			}
		}
	}
	delete(out, "biases")
	mp := out["methodParameters"].(map[string]interface{})
	dropKeys := func(m map[string]interface{}) {
		for k := range m {
			for _, part := range strings.Split(k, ",") { // choquet capacities are keyed by criteria sets
				if gone[part] {
					delete(m, k)
					break
				}
			}
		}
	}
	if w, ok := mp["weights"].(map[string]interface{}); ok {
		dropKeys(w)
	}
	if ec, ok := mp["electreCriteria"].(map[string]interface{}); ok {
		dropKeys(ec)
	}
	if p, ok := mp["params"].(map[string]interface{}); ok {
		if ts, ok := p["thresholds"].([]interface{}); ok {
			for _, t := range ts {
				if tm, ok := t.(map[string]interface{}); ok {
					dropKeys(tm)
				}
			}
		}
	}
	return out
}

// d1JsonClose compares two decoded JSON values; numbers up to tol (relative to max(1,|x|)).
func d1JsonClose(a, b interface{}, tol float64, path string) (bool, string) {
	switch x := a.(type) {
	case map[string]interface{}:
		y, ok := b.(map[string]interface{})
		if !ok || len(x) != len(y) {
			return false, path + ": object shape differs"
		}
		keys := make([]string, 0, len(x))
		for k := range x {
			keys = append(keys, k)
		}
		sort.Strings(keys)
		for _, k := range keys {
			yv, ok := y[k]
			if !ok {
				return false, path + "." + k + ": missing"
			}
			if ok, why := d1JsonClose(x[k], yv, tol, path+"."+k); !ok {
				return false, why
			}
		}
		return true, ""
	case []interface{}:
		y, ok := b.([]interface{})
		if !ok || len(x) != len(y) {
			return false, path + ": array length differs"
		}
		for i := range x {
			if ok, why := d1JsonClose(x[i], y[i], tol, fmt.Sprintf("%s[%d]", path, i)); !ok {
				return false, why
			}
		}
		return true, ""
	case float64:
		y, ok := b.(float64)
		if !ok {
			return false, path + ": number vs non-number"
		}
		if math.Abs(x-y) > tol*math.Max(1, math.Max(math.Abs(x), math.Abs(y))) {
			return false, fmt.Sprintf("%s: %v vs %v", path, x, y)
		}
		return true, ""
	default:
		if a != b {
			return false, fmt.Sprintf("%s: %v vs %v", path, a, b)
		}
		return true, ""
	}
}

func d1DistinctWeights(body J) bool {
	mp := body["methodParameters"].(J)
	w, ok := mp["weights"].(J)
	if !ok {
		return false
	}
	seen := map[float64]bool{}
	for _, v := range w {
		f := v.(float64)
		if seen[f] {
			return false
		}
		seen[f] = true
	}
	return true
}

// d1ReducedProblemOracle: response of the request with the omission bias == response of the request in
// which the omitted criteria are deleted (kept criteria listed in the order the bias leaves them).
func d1ReducedProblemOracle(o *Out, m Meta, c *d1BiasCase, props J, kept, omitted []string) {
	m.Stage = "omission-reduced-problem"
	if len(kept) == 0 {
		o.count("reduced:skip-all-omitted")
		return
	}
	if c.q.Method == "aspectEliminationHeuristic" && !d1DistinctWeights(c.q.Body) {
		o.count("reduced:skip-aspect-tied-weights")
		return
	}
	biased := d1DeepCopyJSON(c.q.Body).(map[string]interface{})
	biased["biases"] = []interface{}{map[string]interface{}{"name": "criteriaOmission", "props": props}}
	bb, _ := json.Marshal(biased)
	st1, out1 := decideJSON(bb)
	if st1 != 200 {
		o.count("reduced:skip-biased-request-rejected:" + c.q.Method)
		return
	}
	red := d1ReducedRequest(c.q.Body, kept, omitted)
	rb, _ := json.Marshal(red)
	st2, out2 := decideJSON(rb)
	m.Input = J{"biasedRequest": biased, "d1ReducedRequest": red}
	if st2 != 200 {
		m.GoOut = J{"biased": json.RawMessage(out1), "reduced": json.RawMessage(out2)}
		o.Oracle(m, false, "reduced request rejected while the biased request is answered: "+string(out2))
		return
	}
	var r1, r2 map[string]interface{}
	json.Unmarshal(out1, &r1)
	json.Unmarshal(out2, &r2)
	// the bias must have reported exactly the omitted criteria the stage call saw
	rep := []string{}
	if bl, ok := r1["biases"].([]interface{}); ok && len(bl) == 1 {
		if pm, ok := bl[0].(map[string]interface{})["props"].(map[string]interface{}); ok {
			if oc, ok := pm["omittedCriteria"].([]interface{}); ok {
				for _, x := range oc {
					rep = append(rep, x.(map[string]interface{})["id"].(string))
				}
			}
		}
	}
	if strings.Join(rep, " ") != strings.Join(omitted, " ") {
		m.GoOut = J{"biased": json.RawMessage(out1)}
		o.Oracle(m, false, fmt.Sprintf("response reports omitted %v, Apply on the same state omitted %v", rep, omitted))
		return
	}
	ok, why := d1JsonClose(r1["result"], r2["result"], 1e-9, "result")
	m.GoOut = J{"biased": json.RawMessage(out1), "reduced": json.RawMessage(out2)}
	o.count("reduced:compared:" + c.q.Method)
	o.Oracle(m, ok, "ranking of the biased request differs from the reduced request: "+why)
	if ok && (c.q.Method == "aspectEliminationHeuristic" || c.q.Method == "majorityHeuristic") {
		// (majority: scores are compared with a tolerance, so the order in which the weights are summed must not matter)
		// pairwise distinct weights determine the examination order: the request with the criteria simply deleted
		// (kept ones in their DECLARED order) must give the same decision too
		var declared []string
		for _, cj := range c.q.Body["criteria"].([]interface{}) {
			id := cj.(J)["id"].(string)
			if heurContains(kept, id) {
				declared = append(declared, id)
			}
		}
		red2 := d1ReducedRequest(c.q.Body, declared, omitted)
		rb2, _ := json.Marshal(red2)
		if st3, out3 := decideJSON(rb2); st3 == 200 {
			var r3 map[string]interface{}
			json.Unmarshal(out3, &r3)
			ok3, why3 := d1JsonClose(r1["result"], r3["result"], 1e-9, "result")
			m3 := m
			m3.Stage = "omission-reduced-problem-declared-order"
			m3.Input = J{"biasedRequest": biased, "d1ReducedRequest": red2}
			m3.GoOut = J{"biased": json.RawMessage(out1), "reduced": json.RawMessage(out3)}
			o.Oracle(m3, ok3, "ranking of the biased request differs from the request with the omitted criteria deleted: "+why3)
		}
	}
}

// ---------- C15 ----------

func init() {
	props["C15"] = func(o *Out, r *Rng, n int, thorough bool) {
		ro := ReqOpts{}
		if thorough {
			ro.Prob = ProbOpts{MaxCrit: 6, MaxAlt: 8}
		}
		for c := 0; c < n; c++ {
			o.Cases++
			bc := d1GenBiasCase(r, ro, 0.25)
			cur := bc.cur
			nc := len(cur.Criteria)
			pr := d1GenSplitProps(r, nc, true)
			props := d1JsonValue(pr)
			in := bc.input("criteriaOmission", pr)
			key := d1ShortKey(string(bc.q.JSON()) + d1PropsKey(pr) + d1PropsKey(bc.pre))
			m := Meta{Case: c, Input: in, Key: key}
			// secondary records of the same case refer to the case's first record instead of repeating the request
			ref := J{"sameRequestAndPropsAs": "record with stage split-validate of this case", "case": c}
			o.count("method=" + bc.q.Method)
			o.count("criteria=" + itoa(nc))
			if bc.pre != nil {
				o.count("after=" + bc.pre["name"].(string))
			}
			if len(bc.orig.NotConsideredAlternatives) == 0 {
				o.count("considered=known")
			} else {
				o.count("considered<known")
			}
			cond, ordering, seed, dmsg := d1DecodeSplit(props)
			if dmsg != "" {
				o.count("props-undecodable")
				continue
			}
			o.count("ordering=" + ordering)
			ds := draws(seed, nc+2)
			if jr, jmin, jmax, okJ := d1CondFromJSON(pr); okJ {
				mj := m
				mj.Stage = "split-props-decoding"
				mj.GoOut = J{"ratio": cond.Ratio, "min": cond.Min, "max": cond.Max}
				o.Oracle(mj, jr == cond.Ratio && jmin == cond.Min && jmax == cond.Max,
					"the decoded split condition is not the one the props state (ratio / min / max with the documented defaults)")
			}

			// --- split-validate (Parse) and split (on the declared order)
			var pmsg string
			{
				p := props
				pmsg = recoverErr(func() { criteria_splitting.Parse(&p) })
				m.Stage = "split-validate"
				exp := L(A("ok"))
				if pmsg != "" {
					exp = L(A("err"))
					o.count("split-validate:rejected")
				}
				o.Corr(m, L(A("split-validate"), d1CondSX(cond)), okSX(exp))
			}
			{
				crits := append(model.Criteria{}, cur.Criteria...)
				var part *criteria_splitting.CriteriaPartition
				cc := cond
				smsg := recoverErr(func() { part = cc.SplitCriteriaByOrdering(&crits) })
				m.Stage = "split"
				if smsg != "" {
					o.count("split:panic")
				} else {
					o.count(fmt.Sprintf("split:pivot=%d/%d", len(*part.Left), nc))
				}
				o.Corr(m, L(A("split"), d1CondSX(cond), critsSX(crits)),
					okSX(resSX(smsg, func() SX { return L(critsSX(*part.Left), critsSX(*part.Right)) })))
			}

			// --- order: every resolver of the registry (+ default, + the requested name)
			curSX := dmpSX(cur)
			names := append([]string{}, d1OrderingNames...)
			if ordering == "bogus" {
				names = append(names, ordering)
			}
			orders := map[string]*model.Criteria{}
			for _, name := range names {
				oc, omsg := d1OrderWith(name, cur, props, bc.listener)
				m.Stage = "order"
				mm := m
				mm.Key = key + "|order=" + name
				mm.Input = J{"ordering": name, "ref": ref}
				if omsg != "" {
					o.count("order:panic:" + name)
				} else {
					orders[name] = oc
				}
				o.Corr(mm, L(A("order"), Str(name), curSX, Nums(ds)), okSX(resSX(omsg, func() SX { return critsSX(*oc) })))
				if omsg == "" {
					mm.Stage = "order-permutation"
					o.Spec(mm, L(A("check-c15-order"), critsSX(cur.Criteria), critsSX(*oc)))
				}
			}
			if w, s := orders["weakest"], orders["strongest"]; w != nil && s != nil {
				ok := len(*w) == len(*s)
				for i := 0; ok && i < len(*w); i++ {
					ok = (*w)[i].Id == (*s)[len(*s)-1-i].Id
				}
				mm := m
				mm.Stage = "strongest-is-reverse-weakest"
				o.Oracle(mm, ok, fmt.Sprintf("weakest %v, strongest %v", d1CritIds(*w), d1CritIds(*s)))
				if d := orders[""]; d != nil {
					same := len(*d) == len(*w)
					for i := 0; same && i < len(*w); i++ {
						same = (*w)[i].Id == (*d)[i].Id
					}
					mm.Stage = "default-is-weakest"
					o.Oracle(mm, same, fmt.Sprintf("default %v, weakest %v", d1CritIds(*d), d1CritIds(*w)))
				}
			}
			// --- order with a scripted generator on the real resolver types (values outside [0,1) reach the
			// roulette's fallback branch and the shuffle's index panic)
			if r.chance(0.35) {
				script := make([]float64, nc+2)
				for i := range script {
					script[i] = []float64{1.5, 1, 0.999999, 0, -0.3, 3, 0.5, 0.25, 1.0000000000000002}[r.Intn(9)]
				}
				scripted := func(int64) utils.ValueGenerator {
					i := 0
					return func() float64 { v := script[i%len(script)]; i++; return v }
				}
				wbp := &criteria_ordering.WeakestByProbabilityCriteriaOrderingResolver{Generator: scripted}
				for _, res := range []criteria_ordering.CriteriaOrderingResolver{
					&criteria_ordering.RandomCriteriaOrderingResolver{Generator: scripted}, wbp,
					&criteria_ordering.StrongestByProbabilityCriteriaOrderingResolver{WeakestByProbability: wbp}} {
					var oc *model.Criteria
					p := model.BiasProps(props)
					omsg := recoverErr(func() { oc = res.OrderCriteria(cur, &p, bc.listener) })
					mm := m
					mm.Stage = "order-scripted"
					mm.Key = key + "|scripted=" + res.Identifier() + fmt.Sprint(script)
					mm.Input = J{"ref": ref, "resolver": res.Identifier(), "generator": script}
					if omsg != "" {
						o.count("order-scripted:panic:" + res.Identifier())
					} else {
						o.count("order-scripted:ok:" + res.Identifier())
					}
					o.Corr(mm, L(A("order"), Str(res.Identifier()), curSX, Nums(script)), okSX(resSX(omsg, func() SX { return critsSX(*oc) })))
					if omsg == "" {
						mm.Stage = "order-permutation"
						o.Spec(mm, L(A("check-c15-order"), critsSX(cur.Criteria), critsSX(*oc)))
					}
				}
			}
			ranked, rmsg := d1RankWith(cur, bc.listener)
			if wp := orders["weakestByProbability"]; wp != nil && rmsg == "" && len(ranked) >= 2 && ranked[0].Weight < ranked[len(ranked)-1].Weight {
				switch (*wp)[0].Id { // distribution evidence, not an alarm
				case ranked[0].Id:
					o.count("weakestByProbability:first=least-important")
				case ranked[len(ranked)-1].Id:
					o.count("weakestByProbability:first=most-important")
				default:
					o.count("weakestByProbability:first=other")
				}
			}

			// --- omission-apply
			res, amsg := d1ApplyBias("criteriaOmission", bc.orig, cur, props, bc.listener)
			m.Stage = "omission-apply"
			var omitted model.Criteria
			if amsg != "" {
				o.count("apply:panic")
			} else {
				omitted = res.Props.(criteria_omission.CriteriaOmissionResult).OmittedCriteria
				m.GoOut = J{"omitted": d1CritIds(omitted), "kept": d1CritIds(res.DMP.Criteria)}
				o.count(fmt.Sprintf("apply:omitted=%d", len(omitted)))
			}
			m.Trivial = amsg != "" || len(omitted) == 0
			o.Corr(m, L(A("omission-apply"), d1CondSX(cond), Str(ordering), curSX, Nums(ds)),
				okSX(resSX(amsg, func() SX { return L(dmpSX(res.DMP), critsSX(omitted)) })))
			if amsg != "" {
				continue
			}
			if sxString(dmpSX(cur)) != sxString(curSX) {
				mm := m
				mm.Stage = "omission-input-untouched"
				o.Oracle(mm, false, "Apply changed the state it was given")
			}
			// --- spec on Go's output
			m.Stage = "omission-spec"
			o.Spec(m, L(A("check-c15"), Str(ordering), d1CondSX(cond), curSX, dmpSX(res.DMP), critsSX(omitted), wcritsSX(ranked)))
			// --- reduced problem (only meaningful for the state MakeDecision itself builds)
			if bc.pre == nil {
				d1ReducedProblemOracle(o, m, bc, pr, d1CritIds(res.DMP.Criteria), d1CritIds(omitted))
			}
		}
	}
}
