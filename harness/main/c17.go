//go:build verif && (c17 || allprops)

package main

import (
	"encoding/json"
	"fmt"

	"github.com/Azbesciak/RealDecisionMaker/lib/logic/biases/fatigue"
	"github.com/Azbesciak/RealDecisionMaker/lib/model"
	criteria_bounding "github.com/Azbesciak/RealDecisionMaker/lib/model/criteria-bounding"
	"github.com/Azbesciak/RealDecisionMaker/lib/utils"
)

// C17 stages:
//   fatigue-apply   : biases["fatigue"].Apply(orig, cur, props, l) vs Lean fatigueApply — bit-exact; for
//                     expFromZero the blur takes the ratio Go reported (exp is external)
//   spec            : check-c17-ratio (formula of the ratio, 1e-12 relative for exp, exact for const),
//                     check-c17 (bound, identity at f = 0, clipping interval, frame, report) on Go's output
//   evidence        : how often a value moved up / down / stayed (sign takes both directions)

func d1GenFatigueProps(r *Rng) J {
	pr := J{"randomSeed": r.Intn(1000)}
	switch k := r.Intn(100); {
	case k < 55:
		pr["function"] = "const"
		pr["params"] = J{"value": []float64{0, 0.125, 0.5, 1, 2, 0.1, 1e-5, -0.5}[r.Intn(8)]}
	case k < 95:
		pr["function"] = "expFromZero"
		pr["params"] = J{"alpha": []float64{0, 0.125, 0.25, 0.5, -0.25, 0.1}[r.Intn(6)],
			"multiplier": []float64{0, 0.5, 1, 1.5, 0.3}[r.Intn(5)], "queryNumber": r.Intn(7)}
	case k < 98:
		pr["function"] = "linear" // not registered
		pr["params"] = J{"value": 0.5}
	default: // no function at all
	}
	if pp, ok := pr["params"].(J); ok { // optional parameters left out: the documented default (0) applies
		for _, k := range sortedJKeys(pp) {
			if r.chance(0.15) {
				delete(pp, k)
			}
		}
	}
	if r.chance(0.08) {
		delete(pr, "randomSeed")
	}
	switch k := r.Intn(100); {
	case k < 40: // bounding off
	case k < 85:
		pr["allowedValuesRangeScaling"] = []float64{1, 0.5, 2, 1.5, 0.25, 3, 0.1}[r.Intn(7)]
	case k < 90:
		pr["allowedValuesRangeScaling"] = -2.0
	case k < 93:
		pr["allowedValuesRangeScaling"] = 0.0 // rejected
	}
	if r.chance(0.35) {
		pr["disallowNegativeValues"] = true
	}
	return pr
}

func d1In17(bc *d1BiasCase, pr J) interface{} { return bc.input("fatigue", pr) }

func init() {
	props["C17"] = func(o *Out, r *Rng, n int, thorough bool) {
		ro := ReqOpts{}
		if thorough {
			ro.Prob = ProbOpts{MaxCrit: 6, MaxAlt: 8}
		}
		signPlus, signMinus := 0, 0
		var lastMinus, lastPlus interface{}
		defer func() {
			// over a whole run the seeded sign must have taken both directions (a draw is >= 1/2 about half of
			// the time; with a few hundred observed moves a one-sided run has probability < 2^-200)
			if signPlus+signMinus >= 200 {
				m := Meta{Stage: "fatigue-sign-both-directions", Case: n, Key: "sign-distribution",
					Input: J{"movesWithSignPlus": signPlus, "movesWithSignMinus": signMinus, "exampleMinus": lastMinus, "examplePlus": lastPlus}}
				o.Oracle(m, signPlus > 0 && signMinus > 0, fmt.Sprintf("sign never took both directions: %d moves with s=+1, %d with s=-1", signPlus, signMinus))
			}
		}()
		for c := 0; c < n; c++ {
			o.Cases++
			if c%12 == 11 {
				c17WholeRequest(o, r, c)
				continue
			}
			bc := d1GenBiasCase(r, ro, 0.25)
			cur := bc.cur
			pr := d1GenFatigueProps(r)
			props := d1JsonValue(pr)
			key := d1ShortKey(string(bc.q.JSON()) + d1PropsKey(pr) + d1PropsKey(bc.pre))
			m := Meta{Case: c, Input: bc.input("fatigue", pr), Key: key}
			o.count("method=" + bc.q.Method)
			if bc.pre != nil {
				o.count("after=" + bc.pre["name"].(string))
			}
			if len(cur.NotConsideredAlternatives) == 0 {
				o.count("considered=known")
			} else {
				o.count("considered<known")
			}
			// decode the props the way Apply does
			fp := fatigue.FatigueParams{}
			cp := fatigue.ConstFatigueParams{}
			ep := fatigue.ExpFatigueParams{}
			bnd := criteria_bounding.DefaultParams()
			dmsg := recoverErr(func() {
				utils.DecodeToStruct(props, &fp)
				utils.DecodeToStruct(props, bnd)
				switch fp.Function {
				case fatigue.FatConstFunc:
					utils.DecodeToStruct(fp.Params, &cp)
				case fatigue.FatExpFromZero:
					utils.DecodeToStruct(fp.Params, &ep)
				}
			})
			if dmsg != "" {
				o.count("props-undecodable")
				continue
			}
			o.count("function=" + fp.Function)
			switch {
			case bnd.AllowedValuesRangeScaling > 0 && bnd.DisallowNegativeValues:
				o.count("bounding=scaled+non-negative")
			case bnd.AllowedValuesRangeScaling > 0:
				o.count("bounding=scaled")
			case bnd.DisallowNegativeValues:
				o.count("bounding=non-negative")
			default:
				o.count("bounding=off")
			}
			fnSX := L(Num(cp.Value), Num(ep.Alpha), Num(ep.Multiplier), Int(ep.QueryNumber))
			nvals := (len(cur.ConsideredAlternatives)+len(cur.NotConsideredAlternatives))*len(cur.Criteria) + 2
			ds := draws(fp.RandomSeed, nvals)
			curSX := dmpSX(cur)

			res, amsg := d1ApplyBias("fatigue", bc.orig, cur, props, bc.listener)
			var rep fatigue.FatigueResult
			fGo := 0.0
			m.Stage = "fatigue-apply"
			if amsg != "" {
				o.count("apply:panic")
			} else {
				rep = res.Props.(fatigue.FatigueResult)
				fGo = rep.EffectiveFatigueRatio
				m.GoOut = J{"effectiveFatigueRatio": fGo}
				if fGo == 0 {
					o.count("ratio=0")
				} else {
					o.count("ratio!=0")
				}
			}
			m.Trivial = amsg != "" || fGo == 0
			o.Corr(m, L(A("fatigue-apply"), Str(fp.Function), fnSX, Num(fGo), d1BoundingSX(bnd), curSX, Nums(ds)),
				okSX(resSX(amsg, func() SX { return L(dmpSX(res.DMP), d1FatigueReportSX(rep)) })))
			if amsg != "" {
				continue
			}
			if sxString(dmpSX(cur)) != sxString(curSX) {
				mm := m
				mm.Stage = "fatigue-input-untouched"
				o.Oracle(mm, false, "Apply changed the state it was given")
			}
			m.Stage = "fatigue-ratio-spec"
			o.Spec(m, L(A("check-c17-ratio"), Str(fp.Function), fnSX, Num(fGo)))
			m.Stage = "fatigue-spec"
			o.Spec(m, L(A("check-c17"), Num(fGo), d1BoundingSX(bnd), curSX, dmpSX(res.DMP), d1FatigueReportSX(rep)))
			// evidence: direction of the moves
			count := func(before, after []model.AlternativeWithCriteria) {
				for i := range before {
					for k, v := range before[i].Criteria {
						w, ok := after[i].Criteria[k]
						switch {
						case !ok:
						case w > v:
							o.Hist["move=up"]++
						case w < v:
							o.Hist["move=down"]++
						default:
							o.Hist["move=none"]++
						}
					}
				}
			}
			if len(res.DMP.ConsideredAlternatives) == len(cur.ConsideredAlternatives) && len(res.DMP.NotConsideredAlternatives) == len(cur.NotConsideredAlternatives) {
				count(cur.ConsideredAlternatives, res.DMP.ConsideredAlternatives)
				count(cur.NotConsideredAlternatives, res.DMP.NotConsideredAlternatives)
				// the sign itself is observable when nothing is clipped: s = sgn((v'-v) / (v*f))
				if bnd.AllowedValuesRangeScaling <= 0 && !bnd.DisallowNegativeValues && fGo != 0 {
					for i, a := range cur.ConsideredAlternatives {
						for k, v := range a.Criteria {
							w, ok := res.DMP.ConsideredAlternatives[i].Criteria[k]
							if d := (w - v) * (v * fGo); ok && d > 0 {
								signPlus++
								lastPlus = d1In17(bc, pr)
							} else if ok && d < 0 {
								signMinus++
								lastMinus = d1In17(bc, pr)
							}
						}
					}
				}
			}
		}
	}
}

// c17WholeRequest: "the report carries the ratio and exactly the values handed on" must still be true of the
// RESPONSE, i.e. after the biases that run after the fatigue: whole request [fatigue, X] through the real
// pipeline (traced), the fatigue report in the final response against the state the fatigue handed on.
func c17WholeRequest(o *Out, r *Rng, c int) {
	q := genRequest(r, ReqOpts{MaxBiases: -1, Prob: ProbOpts{MinCrit: 2, MaxCrit: 4, MaxAlt: 5, AllConsidered: r.chance(0.6)}})
	if q.Method == "owa" || q.Method == "choquetIntegral" {
		q = genRequest(r, ReqOpts{MaxBiases: -1, Methods: []string{"weightedSum", "electreIII", "majorityHeuristic"}, Prob: ProbOpts{MinCrit: 2, MaxCrit: 4, MaxAlt: 5, AllConsidered: r.chance(0.6)}})
	}
	second := []string{"preferenceReversal", "criteriaOmission", "criteriaConcealment", "fatigue"}[r.Intn(4)]
	p2 := biasPropsJSON(r, second, q.Problem)
	switch second {
	case "preferenceReversal":
		p2["ratio"] = 1.0
		delete(p2, "max")
		delete(p2, "min")
	case "criteriaOmission":
		p2["ratio"], p2["max"] = 0.5, 1
		delete(p2, "min")
	}
	q.Body["biases"] = []interface{}{J{"name": "fatigue", "props": d1GenFatigueProps(r)}, J{"name": second, "props": p2}}
	if r.chance(0.15) && len(q.Problem.Chosen) >= 1 {
		// the service accepts a repeated id in choseToMake; every known alternative is still blurred and reported
		ch := append([]string{}, q.Problem.Chosen...)
		ch = append(ch, ch[r.Intn(len(ch))])
		if len(ch) > len(q.Problem.Known) {
			ch = ch[len(ch)-len(q.Problem.Known):]
		}
		for len(ch) < len(q.Problem.Known) && r.chance(0.7) {
			ch = append(ch, ch[0])
		}
		q.Body["choseToMake"] = ch
		o.count("whole-request:repeated-chosen-id")
	}
	js, _ := json.Marshal(q.Body)
	var dm model.DecisionMaker
	if json.Unmarshal(js, &dm) != nil {
		return
	}
	tr := tracedDecide(&dm)
	m := Meta{Case: c, Stage: "fatigue-report-in-response", Input: J{"request": q.Body}, Key: string(js)}
	if tr.Err != "" || len(tr.Steps) < 2 || tr.Steps[0].Name != "fatigue" || tr.Steps[0].Out == nil || tr.Choice == nil {
		o.count("whole-request:not-answered")
		return
	}
	rep, ok := tr.Choice.Biases[0].(model.BiasParams).Props.(fatigue.FatigueResult)
	if !ok {
		return
	}
	handed := tr.Steps[0].Out
	same := altsEqual(rep.ConsideredAlternatives, handed.Co) && altsEqual(rep.NotConsideredAlternatives, handed.Nc)
	covered := map[string]bool{}
	for _, a := range rep.ConsideredAlternatives {
		covered[a.Id] = true
	}
	for _, a := range rep.NotConsideredAlternatives {
		covered[a.Id] = true
	}
	all := true
	for _, a := range dm.KnownAlternatives {
		all = all && covered[a.Id]
	}
	mc := m
	mc.Stage = "fatigue-report-covers-known"
	mc.GoOut = J{"reported": rep}
	o.Oracle(mc, all, "a known alternative is missing from the fatigue report (not blurred / not reported)")
	m.GoOut = J{"reported": rep, "handedOnConsidered": handed.Co, "handedOnNotConsidered": handed.Nc, "after": second}
	o.Oracle(m, same, "the fatigue report in the response does not carry the values the fatigue handed on (changed by the bias after it)")
	o.count("whole-request:after=" + second)
}
