//go:build verif && (c18 || allprops)

package main

import (
	"fmt"
	"strings"
	"time"

	criteria_concealment "github.com/Azbesciak/RealDecisionMaker/lib/logic/biases/criteria-concealment"
	"github.com/Azbesciak/RealDecisionMaker/lib/model"
)

// C18: criteria concealment, criteria mixing, reference criterion.
//   corr   : refcrit / conceal-apply / mixing-apply — the Lean model on the (original, current, props,
//            random streams) the real Bias.Apply received must print what Apply returned (or err)
//   spec   : check-c18-* (exact rationals) on Go's output
//   oracle : a panic on valid props is a failed addition (tagged by class)
// The (original, current) pairs are genuine: `current` is obtained by running other biases through the
// real registries first.

// ---------- shared helpers (also used by c19.go) ----------

// ---------- printing the reports ----------

// ---------- props generators with boundary / invalid values ----------

// ---------- the property ----------

func init() {
	props["C18"] = func(o *Out, r *Rng, n int, thorough bool) {
		for c := 0; c < n; c++ {
			o.Cases++
			switch k := r.Intn(11); {
			case k == 10:
				c18NotUsedName(o, r, c)
			case k < 2:
				c18RefCrit(o, r, c)
			case k < 6:
				c18Bias(o, r, c, "criteriaConcealment", thorough)
			default:
				c18Bias(o, r, c, "criteriaMixing", thorough)
			}
		}
	}
}

// NotUsedName on adversarial id sets: user criteria that already carry generated names, gaps left by omitted
// generated criteria, runs of taken numbers.  Called under a watchdog (a non-terminating search is a failure).
var c18NameStuck bool

func c18NotUsedName(o *Out, r *Rng, c int) {
	if c18NameStuck {
		return
	}
	base := []string{"__concealedCriterion__", "__c0+c1__", "x"}[r.Intn(3)]
	pool := []string{base, base + "1", base + "2", base + "3", base + "4", base + "5", base + "x", "c0", "c1", base + "10", "y" + base}
	var ids []string
	for _, id := range pool {
		if r.chance(0.45) {
			ids = append(ids, id)
		}
	}
	ids = r.shuffled(ids)
	crit := make(model.Criteria, len(ids))
	for i, id := range ids {
		crit[i] = model.Criterion{Id: id, Type: model.Gain}
	}
	m := Meta{Case: c, Stage: "not-used-name", Input: J{"ids": ids, "base": base}, Key: "nun" + base + strings.Join(ids, ","), Trivial: len(ids) == 0}
	done := make(chan string, 1)
	go func() {
		var name string
		msg := recoverErr(func() { name = crit.NotUsedName(base) })
		done <- name + msg
	}()
	select {
	case name := <-done:
		m.GoOut = name
		o.Corr(m, L(A("not-used-name"), Strs(ids), Str(base)), okSX(Str(name)))
		used := false
		for _, id := range ids {
			used = used || id == name
		}
		o.Oracle(m, !used && strings.HasPrefix(name, base), "the generated criterion name is in use or lacks the prefix")
		o.count("not-used-name")
	case <-time.After(3 * time.Second):
		c18NameStuck = true
		o.Oracle(m, false, "NotUsedName did not return within 3 s (the search for a free name does not terminate)")
	}
}

// refcrit: each strategy on ranked lists from the real listeners (and a few synthetic lists)
func c18RefCrit(o *Out, r *Rng, c int) {
	q := genRequest(r, ReqOpts{})
	dm := q.bind()
	d, msg := prepareDMP(dm)
	if msg != "" {
		o.count("prepare-failed")
		return
	}
	l := biasListeners.Fetch(dm.PreferenceFunction)
	var ranked *model.WeightedCriteria
	if msg = recoverErr(func() { ranked = (*l).RankCriteriaAscending(d) }); msg != "" {
		o.count("refcrit:rank-failed")
		return
	}
	rk := *ranked
	switch r.Intn(12) {
	case 0:
		rk = model.WeightedCriteria{}
	case 1:
		for i := range rk {
			rk[i].Weight = float64(r.Intn(2))
		}
	case 2:
		for i := range rk {
			rk[i].Weight = float64(r.Intn(3)) / 2
		}
	}
	pj := J{}
	r.refCritInto(pj)
	if r.chance(0.05) {
		pj["referenceCriterionType"] = "nope"
	}
	if r.chance(0.3) {
		pj["newCriterionImportance"] = []float64{0, 1, 0.5, 0.33, 1.5, r.Float64()}[r.Intn(6)]
	}
	props := jsonProps(pj)
	var got *model.Criterion
	msg = recoverErr(func() {
		p := props
		got = referenceCriterionManager.ForParams(&p).Provide(&rk)
	})
	typ, _ := pj["referenceCriterionType"].(string)
	o.count("refcrit:type=" + typ)
	m := Meta{Stage: "refcrit", Case: c, Trivial: len(rk) < 2, Key: sxString(L(wcritsSX(rk), propsSX(props))),
		Input: map[string]interface{}{"ranked": rk, "props": props, "request": q.Body}}
	if msg != "" {
		o.count("refcrit:err")
	}
	o.Corr(m, L(A("refcrit"), wcritsSX(rk), propsSX(props), Nums(draws(seedOf(props, "newCriterionRandomSeed"), 2))),
		okSX(resSX(msg, func() SX { return critSX(*got) })))
	if msg == "" {
		o.Spec(m, L(A("check-c18-refcrit"), wcritsSX(rk), critSX(*got)))
	}
}

// gapState: conceal, conceal, then an omission that drops exactly the first concealed criterion: the only
// prefixed id left is __concealedCriterion__1 while the prefix count is 1 (NotUsedName must count on to ...2)
func gapState(r *Rng, q *Req, orig *model.DecisionMakingParams, l *model.BiasListener) (*model.DecisionMakingParams, []appliedBias) {
	cur := orig
	var done []appliedBias
	for i := 0; i < 2; i++ {
		props := jsonProps(biasPropsJSON(r, "criteriaConcealment", q.Problem))
		res, msg := applyReal("criteriaConcealment", orig, cur, props, l)
		if msg != "" {
			return cur, done
		}
		cur = res.DMP
		done = append(done, appliedBias{Name: "criteriaConcealment", Props: props})
	}
	for _, ord := range []string{"weakest", "strongest", "random", "random", "random", "random"} {
		props := jsonProps(J{"ratio": 0, "min": 1, "max": 1, "ordering": ord, "randomSeed": r.Intn(1000)})
		res, msg := applyReal("criteriaOmission", orig, cur, props, l)
		if msg != "" {
			continue
		}
		has0, has1 := false, false
		for _, cr := range res.DMP.Criteria {
			has0 = has0 || cr.Id == "__concealedCriterion__"
			has1 = has1 || cr.Id == "__concealedCriterion__1"
		}
		if !has0 && has1 {
			return res.DMP, append(done, appliedBias{Name: "criteriaOmission", Props: props})
		}
	}
	return cur, done
}

func c18Bias(o *Out, r *Rng, c int, bias string, thorough bool) {
	opts := ReqOpts{}
	if bias == "criteriaMixing" && r.chance(0.85) {
		opts.Prob.MinCrit = 2
	}
	if thorough {
		opts.Prob.MaxCrit, opts.Prob.MaxAlt = 6, 9
	}
	if r.chance(0.45) { // the methods whose listeners accept an addition
		opts.Methods = []string{"weightedSum", "electreIII", "majorityHeuristic", "aspectEliminationHeuristic", "satisfactionHeuristic"}
	}
	q := genRequest(r, opts)
	dm := q.bind()
	orig, msg := prepareDMP(dm)
	if msg != "" {
		o.count("prepare-failed")
		return
	}
	l := biasListeners.Fetch(dm.PreferenceFunction)
	cur, prefix := orig, []appliedBias(nil)
	switch k := r.Intn(20); {
	case k < 11: // first bias of the sequence
	case k < 13:
		cur, prefix = gapState(r, q, orig, l)
	default:
		cur, prefix = runPrefix(r, q, orig, l, c18Pool, r.rangeInt(1, 3))
	}
	first := len(prefix) == 0
	pj, reject := c18Props(r, bias, q.Problem)
	props := jsonProps(pj)
	res, msg := applyReal(bias, orig, cur, props, l)

	short := map[string]string{"criteriaConcealment": "conceal", "criteriaMixing": "mixing"}[bias]
	o.count(short + ":method=" + q.Method)
	o.count(fmt.Sprintf("%s:first=%v", short, first))
	o.count(fmt.Sprintf("%s:prefixlen=%d", short, len(prefix)))
	for _, b := range prefix {
		o.count(short + ":after:" + b.Name)
	}
	o.count(fmt.Sprintf("%s:ncrit=%d", short, len(cur.Criteria)))
	in := map[string]interface{}{"request": q.Body, "prefix": prefix, "bias": bias, "props": props}
	m := Meta{Stage: short + "-apply", Case: c, Input: in, Trivial: len(cur.Criteria) < 2 && len(orig.ConsideredAlternatives) < 2,
		Key: sxString(L(dmpSX(orig), dmpSX(cur), propsSX(props)))}
	if !first && !sameDMP(orig, cur) {
		m.Class = short + "-after-state-change"
		if !coherent(cur) {
			m.Class = "incoherent-input-state"
		} else if q.Method == "choquetIntegral" || q.Method == "owa" {
			m.Class = q.Method + "-after-state-change" // additions only get through when no criterion is left
		}
	}
	nAlts := len(cur.ConsideredAlternatives) + len(cur.NotConsideredAlternatives) + len(orig.ConsideredAlternatives) + len(orig.NotConsideredAlternatives)
	op := L(A(short+"-apply"), dmpSX(orig), dmpSX(cur), propsSX(props),
		Nums(draws(seedOf(props, "newCriterionRandomSeed"), 2)), Nums(draws(seedOf(props, "randomSeed"), nAlts+24)))
	if msg != "" {
		o.count(short + ":err")
		o.Corr(m, op, okSX(L(A("err"))))
		if reject != "" {
			o.count(short + ":reject:" + reject)
			return
		}
		mo := m
		mo.Class = panicClass(q.Method, msg, first || sameDMP(orig, cur), short, cur)
		mo.GoOut = msg
		o.count(short + ":panic:" + mo.Class)
		if strings.Contains(msg, "already exist") && q.Method != "choquetIntegral" {
			o.count(short + ":panic-id-already-exists") // repeated mixing of the same pair
		}
		if mo.Class == "incoherent-input-state" { // the defect belongs to the bias that produced the state
			return
		}
		o.Oracle(mo, false, "panic:"+mo.Class)
		return
	}
	var repSX SX
	if bias == "criteriaConcealment" {
		repSX = concealReportSX(res)
		// how often NotUsedName had to count past an id in use (gap left by an omitted concealed criterion)
		nPref := 0
		for _, cr := range cur.Criteria {
			if strings.HasPrefix(cr.Id, "__concealedCriterion__") {
				nPref++
			}
		}
		first := "__concealedCriterion__"
		if nPref > 0 {
			first = fmt.Sprintf("__concealedCriterion__%d", nPref)
		}
		if id := res.Props.(criteria_concealment.CriteriaConcealmentResult).AddedCriteria[0].Id; id != first {
			o.count("conceal:name-counted-past-used-id")
		}
	} else {
		repSX = mixReportSX(res)
		if res.Props == nil {
			o.count("mixing:noop")
		}
	}
	m.GoOut = map[string]interface{}{"criteria": res.DMP.Criteria, "considered": res.DMP.ConsideredAlternatives,
		"notConsidered": res.DMP.NotConsideredAlternatives, "report": res.Props}
	o.Corr(m, op, okSX(L(A("ok"), L(dmpSX(res.DMP), repSX))))
	if reject != "" { // accepted although the props are outside the property's domain
		o.count(short + ":accepted-out-of-domain:" + reject)
		return
	}
	if m.Class == "incoherent-input-state" {
		o.count(short + ":spec-skipped:incoherent-input-state")
		return
	}
	m.Stage = short + "-spec"
	o.Spec(m, L(A("check-c18-"+short), dmpSX(orig), dmpSX(cur), propsSX(props), dmpSX(res.DMP), repSX))
}
