//go:build verif

package main

import (
	"encoding/json"
	"strings"
)

func decideBody(b J) (int, []byte) {
	js, _ := json.Marshal(b)
	return decideJSON(js)
}

func cloneJ(b J) J {
	js, _ := json.Marshal(b)
	var out J
	json.Unmarshal(js, &out)
	return out
}

func biasesOf(resp []byte) []J {
	var r struct {
		Biases []J `json:"biases"`
	}
	json.Unmarshal(resp, &r)
	return r.Biases
}

func resultOf(resp []byte) json.RawMessage {
	var r struct {
		Result json.RawMessage `json:"result"`
	}
	json.Unmarshal(resp, &r)
	return r.Result
}

func truncate(s string, n int) string {
	if len(s) > n {
		return s[:n]
	}
	return s
}

// normaliseJ converts nested map[string]interface{} (from cloneJ) into J so the injectors can
// type-assert uniformly.
func normaliseJ(v J) J {
	var conv func(x interface{}) interface{}
	conv = func(x interface{}) interface{} {
		switch t := x.(type) {
		case map[string]interface{}:
			o := J{}
			for k, e := range t {
				o[k] = conv(e)
			}
			return o
		case []interface{}:
			for i := range t {
				t[i] = conv(t[i])
			}
			return t
		}
		return x
	}
	return conv(map[string]interface{}(v)).(J)
}

func stripBiases(b J) J {
	c := cloneJ(b)
	delete(c, "biases")
	return c
}

func uniq(l []string) []string {
	seen := map[string]bool{}
	var out []string
	for _, x := range l {
		if !seen[x] {
			seen[x] = true
			out = append(out, x)
		}
	}
	return out
}

// c02Invalidate: now and then a request that is rejected deep inside (after registries and defaults have been
// consulted): an unknown ordering name, a distillation function that fails validation, an unknown fatigue function
func c02Invalidate(r *Rng, q *Req) {
	switch k := r.Intn(100); {
	case k < 4:
		bl, _ := q.Body["biases"].([]interface{})
		name := []string{"criteriaOmission", "preferenceReversal"}[r.Intn(2)]
		q.Body["biases"] = append(bl, J{"name": name, "props": J{"ratio": 0.5, "ordering": []string{"weekest", "zzz", "Random"}[r.Intn(3)]}})
	case k < 7:
		if q.Method == "electreIII" {
			q.Body["methodParameters"].(J)["electreDistillation"] = []J{{"a": 1, "b": -0.05}, {"a": 0, "b": -1}}[r.Intn(2)]
		}
	case k < 9:
		bl, _ := q.Body["biases"].([]interface{})
		q.Body["biases"] = append(bl, J{"name": "fatigue", "props": J{"function": "noSuchFunction", "params": J{}}})
	case k < 11:
		if q.Method == "majorityHeuristic" {
			q.Body["methodParameters"].(J)["drawResolution"] = "coinFlip"
		}
	case k < 13:
		bl, _ := q.Body["biases"].([]interface{})
		q.Body["biases"] = append(bl, J{"name": "anchoring", "props": J{
			"anchoringAlternatives": []interface{}{J{"alternative": q.Problem.Known[0].Id, "coefficient": 1}},
			"loss":                  J{"function": "linear", "params": J{"a": 1, "b": 0}}, "gain": J{"function": "linear", "params": J{"a": 1, "b": 0}},
			"referencePoints": J{"function": []string{"ideal", "centroid"}[r.Intn(2)]},
			"applier":         J{"function": []string{"inlined", "inline"}[r.Intn(2)], "params": J{}}}})
	}
}

// choquetSibling: the same Choquet request with the capacities of the single criteria rotated (same multiset of
// numbers over the same coalitions): a second, different model that a lossy cache key would confuse with the first
func choquetSibling(q *Req) *Req {
	if q.Method != "choquetIntegral" {
		return nil
	}
	b := cloneJ(q.Body)
	w, ok := b["methodParameters"].(J)["weights"].(J)
	if !ok {
		return nil
	}
	var singles []string
	for _, k := range sortedJKeys(w) {
		if !strings.Contains(k, ",") {
			singles = append(singles, k)
		}
	}
	if len(singles) < 2 {
		return nil
	}
	first := w[singles[0]]
	for i := 0; i+1 < len(singles); i++ {
		w[singles[i]] = w[singles[i+1]]
	}
	w[singles[len(singles)-1]] = first
	return &Req{Method: q.Method, Problem: q.Problem, Biases: q.Biases, Body: b}
}
