//go:build verif && allprops

package main

import (
	"encoding/json"
	"fmt"
	"os"

	"github.com/Azbesciak/RealDecisionMaker/lib/model"
)

// debug helper: `gen debugreq quick 0 0 <dir>` with RDM_DEBUG_REQ=<file>: prints the traced states of one request
func init() {
	props["debugreq"] = func(o *Out, r *Rng, n int, thorough bool) {
		b, _ := os.ReadFile(os.Getenv("RDM_DEBUG_REQ"))
		var dm model.DecisionMaker
		if err := json.Unmarshal(b, &dm); err != nil {
			fmt.Println("bind:", err)
			return
		}
		tr := tracedDecide(&dm)
		fmt.Println("err:", tr.Err)
		for i, st := range tr.Steps {
			fmt.Printf("step %d %s panic=%q\n  props=%s\n", i, st.Name, st.Panic, truncate(st.PropsJSON, 1500))
			if st.Out != nil {
				for _, a := range append(st.Out.Co, st.Out.Nc...) {
					fmt.Printf("   %s %v\n", a.Id, a.Criteria)
				}
			}
		}
		if tr.Choice != nil {
			fmt.Printf("result: %+v\n", tr.Choice.Result)
		}
	}
}
