//go:build verif

package main

import "strconv"

func itoa(i int) string { return strconv.Itoa(i) }
