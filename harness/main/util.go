//go:build verif

package main

import "strconv"

func itoa(i int) string { return strconv.Itoa(i) }

var seededGen = func(seed int64) func() float64 { return drawsGen(seed) }
