//go:build verif

package main

import (
	"strconv"

	"github.com/Azbesciak/RealDecisionMaker/lib/utils"
)

func itoa(i int) string { return strconv.Itoa(i) }

// the generator factory main.go hands to MakeDecision and to the bias registry (the code under test); the streams
// the MODEL receives come from math/rand directly (codec.go: draws)
var seededGen = func(seed int64) func() float64 { return utils.RandomBasedSeedValueGenerator(seed) }
