//go:build verif && (c11 || allprops)

package main

import (
	"encoding/json"

	limited_rationality "github.com/Azbesciak/RealDecisionMaker/lib/logic/limited-rationality"
	"github.com/Azbesciak/RealDecisionMaker/lib/logic/limited-rationality/majority"
	"github.com/Azbesciak/RealDecisionMaker/lib/model"
	"github.com/Azbesciak/RealDecisionMaker/lib/utils"
)

// C11: majority heuristic.
//   corr  majority-evaluate : (*funcs.Fetch("majorityHeuristic")).Evaluate(dmp) vs Model.majorityEvaluate
//                             (input: the DecisionMakingParams + first 64 draws of randomSeed)
//   corr  majority-compare  : unexported compare() on a random pair (harness/lib/.../majority/export.go)
//   corr  search-order      : limited_rationality.GetAlternativesSearchOrder vs Model.searchOrder
//   spec  check-c11         : exact-rational replay of the tournament from the search order Go reports,
//                             on Go's own output (skipped for ill-conditioned eps margins)

func majEntriesSX(rk *model.AlternativesRanking) SX {
	out := make(sxList, len(*rk))
	for i, e := range *rk {
		ev := e.Evaluation.(majority.MajorityEvaluation)
		out[i] = L(Str(e.Alternative.Id), Num(ev.Value), Str(ev.ComparedWith), Num(ev.ComparedAlternativeValue), Strs(e.BetterThanOrSameAs))
	}
	return out
}

// c11WellConditioned: no pair of alternatives of the search order has a value difference or a score
// difference within float noise of the eps boundary.
func c11WellConditioned(wc *model.WeightedCriteria, order []model.AlternativeWithCriteria) bool {
	for i := range order {
		for j := i + 1; j < len(order); j++ {
			a, b := order[i], order[j]
			for _, c := range *wc {
				v1, v2 := a.Criteria[c.Id], b.Criteria[c.Id]
				if heurNearEps(v1-v2, heurMaxAbs(v1, v2)) {
					return false
				}
			}
			s1, s2 := majority.VerifCompare(wc, &a, &b)
			if heurNearEps(s1-s2, heurMaxAbs(s1, s2)) {
				return false
			}
		}
	}
	return true
}

func init() {
	props["C11"] = func(o *Out, r *Rng, n int, thorough bool) {
		maxAlt := 8
		if thorough {
			maxAlt = 10
		}
		evaluator := *funcs.Fetch("majorityHeuristic")
		for c := 0; c < n; c++ {
			ma := maxAlt
			if r.chance(0.05) { // long tournaments (library sorts switch algorithm above 12 elements)
				ma = 24
			}
			q := genRequest(r, ReqOpts{Methods: []string{"majorityHeuristic"}, ExtraWeightKey: 0.1, Prob: ProbOpts{MaxAlt: ma, MaxCrit: 6}})
			mp := q.Body["methodParameters"].(J)
			heurShapeProblem(r, q)
			heurShapeCurrent(r, q, mp)
			if r.chance(0.3) {
				heurCoarsen(r, q, r.rangeInt(2, 4))
			}
			heurShapeWeights(r, mp["weights"].(J))
			if r.chance(0.08) {
				// large magnitudes: value differences far above the absolute tolerance 1e-6 but tiny relative to the values
				base := []float64{24000, 1e6}[r.Intn(2)]
				for _, a := range q.Body["knownAlternatives"].([]interface{}) {
					vals := a.(J)["criteria"].(J)
					for _, k := range sortedJKeys(vals) {
						vals[k] = base + float64(r.Intn(5))*0.005
					}
				}
				for _, cj := range q.Body["criteria"].([]interface{}) {
					delete(cj.(J), "valuesRange")
				}
				o.count("large-magnitude-near-ties")
			}
			switch k := r.Intn(100); {
			case k < 3:
				mp["drawResolution"] = "bogus"
			case k < 5:
				mp["currentChoice"] = "zz_unknown"
			case k < 7:
				delete(mp["weights"].(J), q.Problem.Criteria[0].Id)
			case k < 9:
				q.Body["choseToMake"] = []string{}
			}
			if r.chance(0.12) {
				// drop-out tie groups of chosen sizes (k-way group followed by j-way group, …): draws allowed, fixed
				// order, every criterion constant inside a group and growing from group to group
				known := q.Body["knownAlternatives"].([]interface{})
				var ch []string
				level := 0.0
				for i := 0; i < len(known); {
					k := r.rangeInt(1, 4)
					for j := 0; j < k && i < len(known); j, i = j+1, i+1 {
						a := known[i].(J)
						for _, cj := range q.Body["criteria"].([]interface{}) {
							v := level
							if cj.(J)["type"] == "cost" {
								v = -level
							}
							a["criteria"].(J)[cj.(J)["id"].(string)] = v
						}
						ch = append(ch, a["id"].(string))
					}
					level++
				}
				q.Body["choseToMake"] = ch
				for _, cj := range q.Body["criteria"].([]interface{}) {
					delete(cj.(J), "valuesRange")
				}
				mp["drawResolution"] = "allow"
				delete(mp, "currentChoice")
				delete(mp, "randomAlternativesOrdering")
				o.count("shaped-tie-groups")
			}
			dm := q.bind()
			d, msg := prepareDMP(dm)
			o.Cases++
			if msg != "" {
				o.count("prepare-failed")
				continue
			}
			params := d.MethodParameters.(majority.MajorityHeuristicParams)
			in := map[string]interface{}{"request": q.Body}
			m := Meta{Case: c, Input: in, Key: string(q.JSON()), Trivial: len(d.ConsideredAlternatives) < 2}
			dmpLine := dmpSX(d)
			ds := Nums(draws(params.RandomSeed, heurDraws))
			heurConsideredOrder(o, m, dm, d)
			o.count("alts=" + itoa(len(d.ConsideredAlternatives)))
			pol := params.DrawResolution
			if pol == "" {
				pol = "(default)"
			}
			o.count("policy=" + pol)
			o.count("current=" + heurCurrentKind(q.Problem, params.CurrentChoice))
			if params.RandomAlternativesOrdering {
				o.count("order=random")
			} else {
				o.count("order=fixed")
			}

			// --- stage: search order
			var order []model.AlternativeWithCriteria
			msgSO := recoverErr(func() {
				cur, rest := limited_rationality.GetAlternativesSearchOrder(d, &params, utils.RandomBasedSeedValueGenerator(params.RandomSeed))
				order = append([]model.AlternativeWithCriteria{cur}, rest...)
			})
			m.Stage = "search-order"
			o.Corr(m, L(A("search-order"), dmpLine, Str(params.CurrentChoice), Bool(params.RandomAlternativesOrdering), ds),
				okSX(resSX(msgSO, func() SX { return altsSX(order) })))

			// --- stage: Evaluate
			var rk *model.AlternativesRanking
			msgEv := recoverErr(func() { rk = evaluator.Evaluate(d) })
			m.Stage = "majority-evaluate"
			if msgEv == "" {
				m.GoOut = heurRankingJSON(rk)
			} else {
				o.count("evaluate-panicked")
			}
			o.Corr(m, L(A("majority-evaluate"), dmpLine, ds), okSX(resSX(msgEv, func() SX { return majEntriesSX(rk) })))
			if msgEv != "" || msgSO != "" {
				continue
			}
			wc := d.Criteria.ZipWithWeights(&params.Weights)

			// --- shape of the tournament, read off the output
			nDraws, decisive, tieGroups := 0, 0, 0
			for i, e := range *rk {
				ev := e.Evaluation.(majority.MajorityEvaluation)
				if i > 0 {
					if utils.FloatsAreEqual(ev.Value, ev.ComparedAlternativeValue, 1e-6) {
						nDraws++
					} else {
						decisive++
					}
				}
				for _, l := range e.BetterThanOrSameAs {
					for _, f := range *rk {
						if f.Alternative.Id == l && heurContains(f.BetterThanOrSameAs, e.Alternative.Id) {
							tieGroups++
						}
					}
				}
			}
			o.count("terminal-draws=" + itoa(heurMinInt(nDraws, 4)))
			if nDraws > 0 && decisive > 0 {
				o.count("mixed-draw-and-decisive")
			}
			if tieGroups > 0 {
				o.count("has-tie-group")
			}

			// --- spec on Go's output
			m.Stage = "check-c11"
			if c11WellConditioned(wc, order) {
				o.Spec(m, L(A("check-c11"), wcritsSX(*wc), altsSX(order), Str(params.DrawResolution), majEntriesSX(rk)))
			} else {
				o.count("ill-conditioned")
			}

			// --- the configured policy / current choice / ordering must still decide after biases changed the
			//     criteria: whole request with non-adding biases through the real pipeline, spec replayed with the
			//     REQUEST's configuration on the state that reached Evaluate
			if r.chance(0.35) && len(d.Criteria) >= 2 {
				q2 := cloneJ(q.Body)
				var bl []interface{}
				for i, nb := 0, r.rangeInt(1, 2); i < nb; i++ {
					// (majority admits criterion-adding biases: the listener's Merge must carry the configuration too)
					name := []string{"criteriaOmission", "criteriaOmission", "preferenceReversal", "fatigue", "criteriaConcealment", "criteriaMixing"}[r.Intn(6)]
					if i > 0 && name == "criteriaMixing" { // mixing after a state change: registered finding of C07/C18
						name = "criteriaConcealment"
					}
					pr := biasPropsJSON(r, name, q.Problem)
					if name == "criteriaOmission" {
						pr["max"] = len(d.Criteria) - 1 - i
						delete(pr, "min")
						pr["ratio"] = 0.5
					}
					bl = append(bl, J{"name": name, "props": pr})
				}
				q2["biases"] = bl
				js2, _ := json.Marshal(q2)
				var dm2 model.DecisionMaker
				if json.Unmarshal(js2, &dm2) == nil {
					tr := tracedDecide(&dm2)
					if tr.Err == "" && tr.Eval != nil && len(tr.Eval.Live.Criteria) >= 1 {
						dF := tr.Eval.Live
						if pF, ok := dF.MethodParameters.(majority.MajorityHeuristicParams); ok {
							reqParams := params // configuration as the request states it
							reqParams.Weights = pF.Weights
							var orderF []model.AlternativeWithCriteria
							msgF := recoverErr(func() {
								cur, rest := limited_rationality.GetAlternativesSearchOrder(dF, &reqParams, utils.RandomBasedSeedValueGenerator(reqParams.RandomSeed))
								orderF = append([]model.AlternativeWithCriteria{cur}, rest...)
							})
							wcF := dF.Criteria.ZipWithWeights(&pF.Weights)
							if msgF == "" && c11WellConditioned(wcF, orderF) {
								m2 := Meta{Case: c, Stage: "check-c11-after-biases", Input: J{"request": q2}, Key: string(js2), GoOut: heurRankingJSON(&tr.Choice.Result)}
								o.Spec(m2, L(A("check-c11"), wcritsSX(*wcF), altsSX(orderF), Str(params.DrawResolution), majEntriesSX(&tr.Choice.Result)))
								o.count("after-biases")
							}
						}
					}
				}
			}

			// --- stage: compare() on a random pair of known alternatives
			all := d.AllAlternatives()
			a, b := all[r.Intn(len(all))], all[r.Intn(len(all))]
			var s1, s2 float64
			msgC := recoverErr(func() { s1, s2 = majority.VerifCompare(wc, &a, &b) })
			m.Stage = "majority-compare"
			m.GoOut = []float64{s1, s2}
			o.Corr(m, L(A("majority-compare"), wcritsSX(*wc), altSX(a), altSX(b)), okSX(resSX(msgC, func() SX { return L(Num(s1), Num(s2)) })))
		}
	}
}
