// sites: typed analysis of /repo/lib and /repo/httpClient (go/packages, full type information),
// regenerated on every run into lean/Rdm/Generated/Sites.lean:
//   * every `for … range <map>` statement in non-test code (C02)
//   * every use of package time, of global math/rand functions, every go statement, channel
//     operation and select (C02, C10)
//   * every assignment to a receiver field, by receiver type and method (C10)
//   * every assignment to a package-level variable inside a function (C10)
//   * every named type whose value is held by the three registries of httpClient/main.go,
//     transitively through struct fields and referenced package-level variables (C10)
//   * the body class of every BlankParams / NewProvider method: fresh allocation or shared receiver (C10)
package main

import (
	"fmt"
	"go/ast"
	"go/token"
	"go/types"
	"os"
	"path/filepath"
	"sort"
	"strconv"
	"strings"

	"golang.org/x/tools/go/packages"
)

func rel(fset *token.FileSet, repo string, p token.Pos) string {
	pos := fset.Position(p)
	r, err := filepath.Rel(repo, pos.Filename)
	if err != nil {
		r = pos.Filename
	}
	return r
}

func enclosing(file *ast.File, pos token.Pos) string {
	for _, d := range file.Decls {
		if f, ok := d.(*ast.FuncDecl); ok && f.Pos() <= pos && pos <= f.End() {
			name := f.Name.Name
			if f.Recv != nil && len(f.Recv.List) > 0 {
				t := f.Recv.List[0].Type
				if s, ok := t.(*ast.StarExpr); ok {
					t = s.X
				}
				if id, ok := t.(*ast.Ident); ok {
					name = id.Name + "." + name
				}
			}
			return name
		}
	}
	return "<package>"
}

func namedOf(t types.Type) *types.Named {
	for {
		switch v := t.(type) {
		case *types.Pointer:
			t = v.Elem()
		case *types.Named:
			return v
		default:
			return nil
		}
	}
}

func qual(n *types.Named) string {
	if n.Obj().Pkg() == nil {
		return n.Obj().Name()
	}
	return n.Obj().Pkg().Name() + "." + n.Obj().Name()
}

func main() {
	repo := "/repo"
	outPath := ""
	if len(os.Args) > 1 {
		repo = os.Args[1]
	}
	if len(os.Args) > 2 {
		outPath = os.Args[2]
	}
	load := func(dir string, extraEnv ...string) []*packages.Package {
		cfg := &packages.Config{Mode: packages.NeedName | packages.NeedFiles | packages.NeedSyntax | packages.NeedTypes | packages.NeedTypesInfo | packages.NeedImports | packages.NeedDeps,
			Dir: dir, Env: append(os.Environ(), extraEnv...), Tests: false}
		pkgs, err := packages.Load(cfg, "./...")
		if err != nil {
			fmt.Fprintln(os.Stderr, "sites: load:", err)
			os.Exit(1)
		}
		bad := false
		for _, p := range pkgs {
			for _, e := range p.Errors {
				fmt.Fprintln(os.Stderr, "sites:", e)
				bad = true
			}
		}
		if bad {
			os.Exit(1)
		}
		return pkgs
	}
	libPkgs := load(filepath.Join(repo, "lib"))
	modfile := os.Getenv("RDM_SITES_MODFILE")
	var mainPkgs []*packages.Package
	if modfile != "" {
		mainPkgs = load(filepath.Join(repo, "httpClient"), "GOFLAGS=-mod=mod -modfile="+modfile)
	}

	var mapClasses, mapUnclassified []string
	var mapSites, clockUses, randUses, goStmts, chanOps, fieldWrites, globalWrites, blankClasses []string
	seenPkg := map[string]bool{}
	var all []*packages.Package
	for _, p := range append(libPkgs, mainPkgs...) {
		if !seenPkg[p.PkgPath] {
			seenPkg[p.PkgPath] = true
			all = append(all, p)
		}
	}
	for _, p := range all {
		if strings.Contains(p.PkgPath, "testUtils") {
			continue
		}
		for _, file := range p.Syntax {
			fname := rel(p.Fset, repo, file.Pos())
			if strings.HasSuffix(fname, "_test.go") || strings.Contains(filepath.Base(fname), "zz_verif_") {
				continue
			}
			ast.Inspect(file, func(n ast.Node) bool {
				switch v := n.(type) {
				case *ast.RangeStmt:
					if tv, ok := p.TypesInfo.Types[v.X]; ok {
						if _, isMap := tv.Type.Underlying().(*types.Map); isMap {
							site := fname + ":" + enclosing(file, v.Pos())
							mapSites = append(mapSites, site)
							cls := classifyMapRange(p, file, v)
							mapClasses = append(mapClasses, site+" => "+cls)
							if cls == "unclassified" {
								mapUnclassified = append(mapUnclassified, site)
							}
						}
					}
				case *ast.GoStmt:
					goStmts = append(goStmts, fname+":"+enclosing(file, v.Pos()))
				case *ast.SendStmt, *ast.SelectStmt:
					chanOps = append(chanOps, fname+":"+enclosing(file, n.Pos()))
				case *ast.UnaryExpr:
					if v.Op == token.ARROW {
						chanOps = append(chanOps, fname+":"+enclosing(file, v.Pos()))
					}
				case *ast.SelectorExpr:
					if id, ok := v.X.(*ast.Ident); ok {
						if pn, ok := p.TypesInfo.Uses[id].(*types.PkgName); ok {
							switch pn.Imported().Path() {
							case "time":
								clockUses = append(clockUses, fname+":"+enclosing(file, v.Pos())+":time."+v.Sel.Name)
							case "math/rand":
								// rand.New / rand.NewSource build an owned generator; everything else is the global source
								if v.Sel.Name != "New" && v.Sel.Name != "NewSource" && v.Sel.Name != "Rand" && v.Sel.Name != "Source" {
									randUses = append(randUses, fname+":"+enclosing(file, v.Pos())+":rand."+v.Sel.Name)
								}
							}
						}
					}
				case *ast.AssignStmt:
					for _, lhs := range v.Lhs {
						recordWrite(p, file, fname, lhs, &fieldWrites, &globalWrites)
					}
				case *ast.IncDecStmt:
					recordWrite(p, file, fname, v.X, &fieldWrites, &globalWrites)
				case *ast.FuncDecl:
					if (v.Name.Name == "BlankParams" || v.Name.Name == "NewProvider") && v.Recv != nil && v.Body != nil {
						cls := "other"
						if len(v.Body.List) == 1 {
							if rs, ok := v.Body.List[0].(*ast.ReturnStmt); ok && len(rs.Results) == 1 {
								switch e := rs.Results[0].(type) {
								case *ast.UnaryExpr:
									if _, ok := e.X.(*ast.CompositeLit); ok && e.Op == token.AND {
										cls = "fresh"
									}
								case *ast.Ident:
									if len(v.Recv.List[0].Names) > 0 && e.Name == v.Recv.List[0].Names[0].Name {
										cls = "receiver"
										// a receiver without fields carries no state
										if n := namedOf(p.TypesInfo.TypeOf(e)); n != nil {
											if st, ok := n.Underlying().(*types.Struct); ok && st.NumFields() == 0 {
												cls = "receiver-fieldless"
											}
										}
									}
								}
							}
						}
						blankClasses = append(blankClasses, enclosing(file, v.Pos())+":"+cls)
					}
				}
				return true
			})
		}
	}

	// registry-held types: concrete named types occurring in package-level var initialisers of
	// httpClient/main.go, closed under struct fields and referenced package-level variables of lib
	held := map[string]bool{}
	if len(mainPkgs) > 0 {
		var mp *packages.Package
		for _, p := range mainPkgs {
			if p.Name == "main" {
				mp = p
			}
		}
		pkgOf := map[*types.Package]*packages.Package{}
		var walkPkgs func(p *packages.Package)
		walkPkgs = func(p *packages.Package) {
			if pkgOf[p.Types] != nil {
				return
			}
			pkgOf[p.Types] = p
			for _, q := range p.Imports {
				walkPkgs(q)
			}
		}
		walkPkgs(mp)
		var addType func(t types.Type)
		var walkExpr func(p *packages.Package, e ast.Expr)
		doneVar := map[types.Object]bool{}
		addType = func(t types.Type) {
			switch v := t.(type) {
			case *types.Pointer:
				addType(v.Elem())
				return
			case *types.Slice:
				addType(v.Elem())
				return
			case *types.Map:
				addType(v.Elem())
				return
			}
			n := namedOf(t)
			if n == nil || n.Obj().Pkg() == nil || !strings.Contains(n.Obj().Pkg().Path(), "RealDecisionMaker") {
				return
			}
			if held[qual(n)] {
				return
			}
			if _, isIface := n.Underlying().(*types.Interface); isIface {
				return
			}
			held[qual(n)] = true
			if st, ok := n.Underlying().(*types.Struct); ok {
				for i := 0; i < st.NumFields(); i++ {
					addType(st.Field(i).Type())
				}
			}
		}
		walkExpr = func(p *packages.Package, e ast.Expr) {
			ast.Inspect(e, func(n ast.Node) bool {
				ex, ok := n.(ast.Expr)
				if !ok {
					return true
				}
				if tv, ok := p.TypesInfo.Types[ex]; ok && tv.Type != nil {
					if _, isSig := tv.Type.Underlying().(*types.Signature); !isSig {
						addType(tv.Type)
					}
				}
				var obj types.Object
				switch v := ex.(type) {
				case *ast.Ident:
					obj = p.TypesInfo.Uses[v]
				case *ast.SelectorExpr:
					obj = p.TypesInfo.Uses[v.Sel]
				}
				if vr, ok := obj.(*types.Var); ok && vr.Pkg() != nil && vr.Parent() == vr.Pkg().Scope() && !doneVar[vr] {
					doneVar[vr] = true
					addType(vr.Type())
					if dp := pkgOf[vr.Pkg()]; dp != nil {
						for _, f := range dp.Syntax {
							for _, d := range f.Decls {
								if g, ok := d.(*ast.GenDecl); ok {
									for _, s := range g.Specs {
										if vs, ok := s.(*ast.ValueSpec); ok {
											for i, nm := range vs.Names {
												if dp.TypesInfo.Defs[nm] == vr && i < len(vs.Values) {
													walkExpr(dp, vs.Values[i])
												}
											}
										}
									}
								}
							}
						}
					}
				}
				return true
			})
		}
		for _, f := range mp.Syntax {
			if strings.Contains(filepath.Base(mp.Fset.Position(f.Pos()).Filename), "zz_verif_") {
				continue
			}
			for _, d := range f.Decls {
				if g, ok := d.(*ast.GenDecl); ok && g.Tok == token.VAR {
					for _, s := range g.Specs {
						for _, v := range s.(*ast.ValueSpec).Values {
							walkExpr(mp, v)
						}
					}
				}
			}
		}
	}
	var heldList []string
	for k := range held {
		heldList = append(heldList, k)
	}

	var out strings.Builder
	out.WriteString("/- GENERATED by tools/sites (go/packages, typed) from the working tree of /repo on every run — do not edit. -/\nnamespace Rdm.Sites\n\n")
	emit := func(name, doc string, l []string) {
		sort.Strings(l)
		q := make([]string, len(l))
		for i, s := range l {
			q[i] = strconv.Quote(s)
		}
		fmt.Fprintf(&out, "/-- %s -/\ndef %s : List String := [\n  %s]\n\n", doc, name, strings.Join(q, ",\n  "))
	}
	emit("mapRangeSites", "every `for … range <map>` in non-test code, as file:function (one entry per statement)", mapSites)
	emit("mapRangeClasses", "structural class of every map-range statement: per-key (the body only defines locals, writes map entries indexed through the loop key, or panics), sorted-before-use (the body only fills a slice that is passed to package sort afterwards), message-only (the enclosing block ends in a panic), or unclassified", mapClasses)
	emit("mapRangeUnclassified", "map-range statements whose result may depend on the iteration order as far as the structural classifier can tell", mapUnclassified)
	emit("clockUses", "uses of package time", clockUses)
	emit("globalRandUses", "uses of the global math/rand source", randUses)
	emit("goStatements", "go statements", goStmts)
	emit("channelOps", "channel sends/receives/selects", chanOps)
	emit("receiverFieldWrites", "assignments to a field of a method receiver, as Type.method:field", fieldWrites)
	var writtenTypes []string
	seenWT := map[string]bool{}
	for _, w := range fieldWrites {
		parts := strings.SplitN(w, ".", 3)
		if len(parts) >= 2 {
			t := parts[0] + "." + parts[1]
			if !seenWT[t] {
				seenWT[t] = true
				writtenTypes = append(writtenTypes, t)
			}
		}
	}
	emit("receiverWrittenTypes", "types with a method that assigns to a receiver field", writtenTypes)
	var nonFresh []string
	for _, c := range blankClasses {
		if !strings.HasSuffix(c, ":fresh") && !strings.HasSuffix(c, ":receiver-fieldless") {
			nonFresh = append(nonFresh, c)
		}
	}
	emit("blankParamsNotFresh", "BlankParams / NewProvider bodies that are neither a fresh allocation nor a field-less receiver", nonFresh)
	emit("packageVarWrites", "assignments to package-level variables inside functions", globalWrites)
	emit("registryHeldTypes", "named types whose values are held by the registries of httpClient/main.go (transitively)", heldList)
	emit("blankParamsClasses", "BlankParams / NewProvider bodies: fresh allocation, receiver, …", blankClasses)
	out.WriteString("end Rdm.Sites\n")
	if outPath == "" {
		fmt.Print(out.String())
		return
	}
	old, _ := os.ReadFile(outPath)
	if string(old) != out.String() {
		os.WriteFile(outPath, []byte(out.String()), 0644)
	}
}

func recordWrite(p *packages.Package, file *ast.File, fname string, lhs ast.Expr, fieldWrites, globalWrites *[]string) {
	// strip index expressions: x.f[i] = … writes through x.f
	base := lhs
	for {
		switch v := base.(type) {
		case *ast.IndexExpr:
			base = v.X
			continue
		case *ast.ParenExpr:
			base = v.X
			continue
		case *ast.StarExpr:
			base = v.X
			continue
		}
		break
	}
	switch v := base.(type) {
	case *ast.SelectorExpr:
		root := v.X
		for {
			if s, ok := root.(*ast.SelectorExpr); ok {
				root = s.X
				continue
			}
			break
		}
		if id, ok := root.(*ast.Ident); ok {
			if obj, ok := p.TypesInfo.Uses[id].(*types.Var); ok {
				// receiver?
				fn := enclosingDecl(file, lhs.Pos())
				if fn != nil && fn.Recv != nil && len(fn.Recv.List) > 0 && len(fn.Recv.List[0].Names) > 0 &&
					p.TypesInfo.Defs[fn.Recv.List[0].Names[0]] == obj {
					if n := namedOf(obj.Type()); n != nil {
						*fieldWrites = append(*fieldWrites, qual(n)+"."+fn.Name.Name+":"+v.Sel.Name)
					}
				} else if obj.Pkg() != nil && obj.Parent() == obj.Pkg().Scope() {
					*globalWrites = append(*globalWrites, fname+":"+enclosing(file, lhs.Pos())+":"+id.Name)
				}
			}
		}
	case *ast.Ident:
		if obj, ok := p.TypesInfo.Uses[v].(*types.Var); ok && obj.Pkg() != nil && obj.Parent() == obj.Pkg().Scope() {
			if enclosingDecl(file, lhs.Pos()) != nil {
				*globalWrites = append(*globalWrites, fname+":"+enclosing(file, lhs.Pos())+":"+v.Name)
			}
		}
	}
}

func enclosingDecl(file *ast.File, pos token.Pos) *ast.FuncDecl {
	for _, d := range file.Decls {
		if f, ok := d.(*ast.FuncDecl); ok && f.Pos() <= pos && pos <= f.End() {
			return f
		}
	}
	return nil
}


// ---------------------------------------------------------------- structural classifier of map ranges

func identsIn(e ast.Node) map[string]bool {
	m := map[string]bool{}
	if e == nil {
		return m
	}
	ast.Inspect(e, func(n ast.Node) bool {
		if id, ok := n.(*ast.Ident); ok {
			m[id.Name] = true
		}
		return true
	})
	return m
}

func mentions(e ast.Node, set map[string]bool) bool {
	for k := range identsIn(e) {
		if set[k] {
			return true
		}
	}
	return false
}

func isPanicCall(s ast.Stmt) bool {
	es, ok := s.(*ast.ExprStmt)
	if !ok {
		return false
	}
	c, ok := es.X.(*ast.CallExpr)
	if !ok {
		return false
	}
	id, ok := c.Fun.(*ast.Ident)
	return ok && id.Name == "panic"
}

// per-key body: statements that cannot make the overall result depend on the visiting order
//   x := e / x, ok := e          (new locals; tainted when e mentions the key or a tainted local)
//   m[<mentions key/tainted>] = e, += …   (map entry selected through the loop key)
//   local (defined in the body) = e
//   if … { per-key } else { per-key }, panic(…), call statements, continue
// anything else (accumulating into an outer variable, append to an outer slice, break, return, i++ on an
// outer counter, …) is not per-key.
func perKeyBody(p *packages.Package, body []ast.Stmt, tainted, locals map[string]bool) bool {
	for _, st := range body {
		switch v := st.(type) {
		case *ast.AssignStmt:
			if v.Tok == token.DEFINE {
				t := false
				for _, r := range v.Rhs {
					if mentions(r, tainted) {
						t = true
					}
				}
				for _, l := range v.Lhs {
					if id, ok := l.(*ast.Ident); ok {
						locals[id.Name] = true
						if t {
							tainted[id.Name] = true
						}
					}
				}
				continue
			}
			for _, l := range v.Lhs {
				switch lv := l.(type) {
				case *ast.IndexExpr:
					tv, ok := p.TypesInfo.Types[lv.X]
					if !ok {
						return false
					}
					if _, isMap := tv.Type.Underlying().(*types.Map); !isMap {
						return false
					}
					if !mentions(lv.Index, tainted) {
						return false
					}
				case *ast.Ident:
					if !locals[lv.Name] && lv.Name != "_" {
						return false
					}
				default:
					return false
				}
			}
		case *ast.IfStmt:
			if v.Init != nil {
				if !perKeyBody(p, []ast.Stmt{v.Init}, tainted, locals) {
					return false
				}
			}
			if !perKeyBody(p, v.Body.List, tainted, locals) {
				return false
			}
			if v.Else != nil {
				switch e := v.Else.(type) {
				case *ast.BlockStmt:
					if !perKeyBody(p, e.List, tainted, locals) {
						return false
					}
				case *ast.IfStmt:
					if !perKeyBody(p, []ast.Stmt{e}, tainted, locals) {
						return false
					}
				}
			}
		case *ast.ExprStmt:
			if _, ok := v.X.(*ast.CallExpr); !ok {
				return false
			}
		case *ast.BranchStmt:
			if v.Tok != token.CONTINUE {
				return false
			}
		case *ast.DeclStmt:
			// var x T
			if g, ok := v.Decl.(*ast.GenDecl); ok {
				for _, sp := range g.Specs {
					if vs, ok := sp.(*ast.ValueSpec); ok {
						for _, n := range vs.Names {
							locals[n.Name] = true
						}
					}
				}
			}
		default:
			return false
		}
	}
	return true
}

// fill-then-sort: the body only stores into / appends to one outer slice (and advances one counter), and the
// enclosing function later hands that slice to package sort
func fillsSlice(body []ast.Stmt) (string, bool) {
	name := ""
	set := func(n string) bool {
		if name == "" || name == n {
			name = n
			return true
		}
		return false
	}
	for _, st := range body {
		switch v := st.(type) {
		case *ast.AssignStmt:
			if len(v.Lhs) != 1 {
				return "", false
			}
			switch l := v.Lhs[0].(type) {
			case *ast.IndexExpr: // s[i] = …
				id, ok := l.X.(*ast.Ident)
				if !ok || !set(id.Name) {
					return "", false
				}
			case *ast.Ident: // s = append(s, …)  |  i += 1
				if c, ok := v.Rhs[0].(*ast.CallExpr); ok {
					if f, ok := c.Fun.(*ast.Ident); ok && f.Name == "append" {
						if !set(l.Name) {
							return "", false
						}
						continue
					}
				}
				if v.Tok != token.ADD_ASSIGN {
					return "", false
				}
			default:
				return "", false
			}
		case *ast.IncDecStmt:
		default:
			return "", false
		}
	}
	return name, name != ""
}

func classifyMapRange(p *packages.Package, file *ast.File, rs *ast.RangeStmt) string {
	tainted, locals := map[string]bool{}, map[string]bool{}
	if id, ok := rs.Key.(*ast.Ident); ok && id.Name != "_" {
		tainted[id.Name] = true
		locals[id.Name] = true
	}
	if id, ok := rs.Value.(*ast.Ident); ok && id.Name != "_" {
		locals[id.Name] = true
	}
	if len(tainted) > 0 && perKeyBody(p, rs.Body.List, tainted, locals) {
		return "per-key"
	}
	fn := enclosingDecl(file, rs.Pos())
	if slice, ok := fillsSlice(rs.Body.List); ok && fn != nil {
		sorted, onlyPanic := false, false
		ast.Inspect(fn.Body, func(n ast.Node) bool {
			c, ok := n.(*ast.CallExpr)
			if !ok || c.Pos() < rs.End() {
				return true
			}
			if sel, ok := c.Fun.(*ast.SelectorExpr); ok {
				if pk, ok := sel.X.(*ast.Ident); ok && pk.Name == "sort" && len(c.Args) > 0 && mentions(c.Args[0], map[string]bool{slice: true}) {
					sorted = true
				}
			}
			return true
		})
		if sorted {
			return "sorted-before-use"
		}
		// message-only: the block that contains the loop ends in a panic
		ast.Inspect(fn.Body, func(n ast.Node) bool {
			b, ok := n.(*ast.BlockStmt)
			if !ok {
				return true
			}
			for i, st := range b.List {
				if st == ast.Stmt(rs) && i < len(b.List)-1 && isPanicCall(b.List[len(b.List)-1]) {
					onlyPanic = true
				}
			}
			return true
		})
		if onlyPanic {
			return "message-only"
		}
	}
	return "unclassified"
}
