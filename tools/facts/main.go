// facts: re-reads /repo on every run and regenerates lean/Rdm/Generated/Facts.lean:
// numeric constants and defaults the model uses, identifier strings, registry wiring of main.go.
// Pure go/parser + go/ast (no type information needed for these facts).
package main

import (
	"fmt"
	"go/ast"
	"go/parser"
	"go/token"
	"math"
	"math/big"
	"os"
	"path/filepath"
	"strconv"
	"strings"
)

var repo = "/repo"
var fset = token.NewFileSet()
var cache = map[string]*ast.File{}
var failed []string

func file(rel string) *ast.File {
	if f, ok := cache[rel]; ok {
		return f
	}
	f, err := parser.ParseFile(fset, filepath.Join(repo, rel), nil, 0)
	if err != nil {
		failed = append(failed, rel+": "+err.Error())
		f = &ast.File{}
	}
	cache[rel] = f
	return f
}

// package-level numeric constants/variables with literal initialisers, per directory (so that a literal
// that was extracted into a named constant still resolves)
var constTable = map[string]map[string]ast.Expr{}

func loadConsts(rel string) map[string]ast.Expr {
	dir := filepath.Dir(rel)
	if t, ok := constTable[dir]; ok {
		return t
	}
	t := map[string]ast.Expr{}
	constTable[dir] = t
	matches, _ := filepath.Glob(filepath.Join(repo, dir, "*.go"))
	for _, m := range matches {
		if strings.HasSuffix(m, "_test.go") {
			continue
		}
		f, err := parser.ParseFile(token.NewFileSet(), m, nil, 0)
		if err != nil {
			continue
		}
		for _, d := range f.Decls {
			g, ok := d.(*ast.GenDecl)
			if !ok || (g.Tok != token.CONST && g.Tok != token.VAR) {
				continue
			}
			for _, sp := range g.Specs {
				vs := sp.(*ast.ValueSpec)
				for i, n := range vs.Names {
					if i < len(vs.Values) {
						t[n.Name] = vs.Values[i]
					}
				}
			}
		}
	}
	return t
}

var currentRel string // file whose constants resolve identifiers in numOf

// numeric value of a (possibly negated) basic literal expression, or of a package-level constant
func numOf(e ast.Expr) (float64, bool) {
	switch v := e.(type) {
	case *ast.Ident:
		if currentRel != "" {
			if def, ok := loadConsts(currentRel)[v.Name]; ok {
				if _, isIdent := def.(*ast.Ident); !isIdent {
					return numOf(def)
				}
			}
		}
	case *ast.BasicLit:
		if v.Kind == token.FLOAT || v.Kind == token.INT {
			f, err := strconv.ParseFloat(v.Value, 64)
			return f, err == nil
		}
	case *ast.UnaryExpr:
		if v.Op == token.SUB {
			f, ok := numOf(v.X)
			return -f, ok
		}
	case *ast.ParenExpr:
		return numOf(v.X)
	}
	return 0, false
}

func strOf(e ast.Expr) (string, bool) {
	if v, ok := e.(*ast.BasicLit); ok && v.Kind == token.STRING {
		s, err := strconv.Unquote(v.Value)
		return s, err == nil
	}
	return "", false
}

// package-level const or var initialiser expression
func declValue(rel, name string) ast.Expr {
	for _, d := range file(rel).Decls {
		g, ok := d.(*ast.GenDecl)
		if !ok {
			continue
		}
		for _, s := range g.Specs {
			vs, ok := s.(*ast.ValueSpec)
			if !ok {
				continue
			}
			for i, n := range vs.Names {
				if n.Name == name && i < len(vs.Values) {
					return vs.Values[i]
				}
			}
		}
	}
	return nil
}

func funcDecl(rel, name string) *ast.FuncDecl {
	for _, d := range file(rel).Decls {
		if f, ok := d.(*ast.FuncDecl); ok && f.Name.Name == name {
			return f
		}
	}
	return nil
}

// method with receiver type name
func methodDecl(rel, recv, name string) *ast.FuncDecl {
	for _, d := range file(rel).Decls {
		f, ok := d.(*ast.FuncDecl)
		if !ok || f.Name.Name != name || f.Recv == nil || len(f.Recv.List) == 0 {
			continue
		}
		t := f.Recv.List[0].Type
		if s, ok := t.(*ast.StarExpr); ok {
			t = s.X
		}
		if id, ok := t.(*ast.Ident); ok && id.Name == recv {
			return f
		}
	}
	return nil
}

// field value of the first composite literal of the given type name inside node
func compositeField(node ast.Node, typ, field string) ast.Expr {
	var res ast.Expr
	if node == nil {
		return nil
	}
	ast.Inspect(node, func(n ast.Node) bool {
		cl, ok := n.(*ast.CompositeLit)
		if !ok || res != nil {
			return res == nil
		}
		tn := ""
		switch t := cl.Type.(type) {
		case *ast.Ident:
			tn = t.Name
		case *ast.SelectorExpr:
			tn = t.Sel.Name
		}
		if tn != typ {
			return true
		}
		for _, el := range cl.Elts {
			if kv, ok := el.(*ast.KeyValueExpr); ok {
				if id, ok := kv.Key.(*ast.Ident); ok && id.Name == field {
					res = kv.Value
				}
			}
		}
		return true
	})
	return res
}

// numeric literals compared with a call expression inside node: `call() <op> lit`
func comparedLits(node ast.Node) []struct {
	Op  string
	Val float64
} {
	var res []struct {
		Op  string
		Val float64
	}
	if node == nil {
		return nil
	}
	ast.Inspect(node, func(n ast.Node) bool {
		be, ok := n.(*ast.BinaryExpr)
		if !ok {
			return true
		}
		if _, isCall := be.X.(*ast.CallExpr); isCall {
			if v, ok := numOf(be.Y); ok {
				res = append(res, struct {
					Op  string
					Val float64
				}{be.Op.String(), v})
			}
		}
		return true
	})
	return res
}

// comparisons `callee() <op> x` anywhere in a file, by the name of the called function value
func comparedWithCall(rel, callee string) []struct {
	Op  string
	Val float64
} {
	var res []struct {
		Op  string
		Val float64
	}
	ast.Inspect(file(rel), func(n ast.Node) bool {
		be, ok := n.(*ast.BinaryExpr)
		if !ok {
			return true
		}
		c, isCall := be.X.(*ast.CallExpr)
		if !isCall {
			return true
		}
		if id, ok := c.Fun.(*ast.Ident); ok && id.Name == callee {
			if v, ok := numOf(be.Y); ok {
				res = append(res, struct {
					Op  string
					Val float64
				}{be.Op.String(), v})
			}
		}
		return true
	})
	return res
}

// all results agree on operator and value
func uniqueCmp(l []struct {
	Op  string
	Val float64
}, op string) (float64, bool) {
	if len(l) == 0 {
		return math.NaN(), false
	}
	for _, x := range l {
		if x.Op != op || x.Val != l[0].Val {
			return math.NaN(), false
		}
	}
	return l[0].Val, true
}

// float literals passed as the last argument of calls to fn inside node
func lastArgLits(node ast.Node, fn string) []float64 {
	var res []float64
	if node == nil {
		return nil
	}
	ast.Inspect(node, func(n ast.Node) bool {
		c, ok := n.(*ast.CallExpr)
		if !ok || len(c.Args) == 0 {
			return true
		}
		name := ""
		switch f := c.Fun.(type) {
		case *ast.Ident:
			name = f.Name
		case *ast.SelectorExpr:
			name = f.Sel.Name
		}
		if name == fn {
			if v, ok := numOf(c.Args[len(c.Args)-1]); ok {
				res = append(res, v)
			}
		}
		return true
	})
	return res
}

var out strings.Builder

// fallbacks: value at the pinned commit, used ONLY so that the generated file stays well-formed when a
// query no longer resolves (constant renamed / moved); the name is then listed in `staleFacts` and the
// property that owns the fact has an obligation `name ∉ staleFacts` which fails.
var fallbackNum = map[string]float64{"roundPrecision": 1e8, "choquetEps": 0.00001, "majorityEps": 1e-6, "minAllowedWeight": 0.01,
	"defaultDistillationA": -.15, "defaultDistillationB": .3, "defaultMixingRatio": 0.5, "defaultConcealmentScaling": 1,
	"defaultBoundingScaling": -1, "defaultApplyProbability": 1, "randomWinnerHalf": 0.5, "fatigueSignHalf": 0.5, "aspectTieHalf": 0.5}
var stale []string

func emitConst(name string, v float64, ok bool, src string) {
	if !ok || math.IsNaN(v) || math.IsInf(v, 0) {
		fb, has := fallbackNum[name]
		if !has {
			failed = append(failed, "constant "+name+" not found ("+src+")")
			return
		}
		stale = append(stale, name)
		v = fb
		src = "STALE (query no longer resolves; pinned value): " + src
	}
	r := new(big.Rat).SetFloat64(v)
	fmt.Fprintf(&out, "/-- %s = %v -/\ndef %s : Const := ⟨0x%016x, %s, %s⟩\n", src, v, name, math.Float64bits(v), r.Num().String(), r.Denom().String())
}

func emitNumExpr(name string, e ast.Expr, src string) {
	if e == nil {
		emitConst(name, 0, false, src)
		return
	}
	v, ok := numOf(e)
	emitConst(name, v, ok, src)
}

func emitStr(name, v string, ok bool, src string) {
	if !ok {
		stale = append(stale, name)
		v = "<stale>"
		src = "STALE: " + src
	}
	fmt.Fprintf(&out, "/-- %s -/\ndef %s : String := %s\n", src, name, strconv.Quote(v))
}

func emitStrDecl(name, rel, ident string) {
	e := declValue(rel, ident)
	if e == nil {
		emitStr(name, "", false, rel+": "+ident)
		return
	}
	// allow an alias to another package's constant (utils.ExpFromZeroFunctionName etc.)
	if s, ok := strOf(e); ok {
		emitStr(name, s, true, rel+": "+ident)
		return
	}
	if sel, ok := e.(*ast.SelectorExpr); ok {
		target := map[string]string{"ExpFromZeroFunctionName": "lib/utils/exp-from-zero.go", "LinearFunctionName": "lib/utils/linear-function.go"}[sel.Sel.Name]
		if target != "" {
			if s, ok := strOf(declValue(target, sel.Sel.Name)); ok {
				emitStr(name, s, true, rel+": "+ident+" = "+sel.Sel.Name)
				return
			}
		}
	}
	emitStr(name, "", false, rel+": "+ident+" is not a literal")
}

// identifiers of a slice/composite literal initialiser, rendered as short type names
func elemNames(e ast.Expr) []string {
	var res []string
	cl, ok := e.(*ast.CompositeLit)
	if !ok {
		return nil
	}
	for _, el := range cl.Elts {
		if kv, ok := el.(*ast.KeyValueExpr); ok {
			el = kv.Value
		}
		res = append(res, exprName(el))
	}
	return res
}

func exprName(e ast.Expr) string {
	switch v := e.(type) {
	case *ast.UnaryExpr:
		return exprName(v.X)
	case *ast.CompositeLit:
		return exprName(v.Type)
	case *ast.SelectorExpr:
		return v.Sel.Name
	case *ast.Ident:
		return v.Name
	case *ast.CallExpr:
		return exprName(v.Fun)
	}
	return "?"
}

func emitStrList(name string, l []string, src string) {
	if l == nil {
		stale = append(stale, name)
		l = []string{}
		src = "STALE: " + src
	}
	q := make([]string, len(l))
	for i, s := range l {
		q[i] = strconv.Quote(s)
	}
	fmt.Fprintf(&out, "/-- %s -/\ndef %s : List String := [%s]\n", src, name, strings.Join(q, ", "))
}

func main() {
	outPath := ""
	if len(os.Args) > 1 {
		repo = os.Args[1]
	}
	if len(os.Args) > 2 {
		outPath = os.Args[2]
	}
	out.WriteString("/- GENERATED by tools/facts from the working tree of /repo on every run — do not edit. -/\nimport Rdm.Basic\nnamespace Rdm.Facts\n\n")

	// ---- numeric constants
	emitNumExpr("roundPrecision", declValue("lib/model/alternative.go", "roundPrecision"), "lib/model/alternative.go: const roundPrecision")
	currentRel = "lib/logic/preference-func/choquet/choquet-integral.go"
	ce := lastArgLits(file(currentRel), "FloatsAreEqual") // anywhere in the file: the tie test may be extracted
	emitConst("choquetEps", first(ce), len(ce) >= 1 && allSame(ce), "choquet-integral.go: FloatsAreEqual tolerance of the tie grouping")
	currentRel = ""
	emitNumExpr("majorityEps", declValue("lib/logic/limited-rationality/majority/majority.go", "eps"), "majority.go: const eps")
	emitNumExpr("minAllowedWeight", declValue("lib/logic/biases/anchoring/new-criterion-anchoring-applier.go", "_minAllowedWeight"), "new-criterion-anchoring-applier.go: const _minAllowedWeight")
	dd := declValue("lib/logic/preference-func/electreIII/distilation.go", "DefaultDistillationFunc")
	emitNumExpr("defaultDistillationA", compositeField(dd, "LinearFunctionParameters", "A"), "distilation.go: DefaultDistillationFunc.A")
	emitNumExpr("defaultDistillationB", compositeField(dd, "LinearFunctionParameters", "B"), "distilation.go: DefaultDistillationFunc.B")
	emitNumExpr("defaultMixingRatio", compositeField(funcDecl("lib/logic/biases/criteria-mixing/criteria-mixing.go", "parseProps"), "CriteriaMixingParams", "MixingRatio"), "criteria-mixing.go: parseProps default MixingRatio")
	emitNumExpr("defaultConcealmentScaling", compositeField(funcDecl("lib/logic/biases/criteria-concealment/criteria-concealment.go", "parseProps"), "CriteriaConcealmentParams", "NewCriterionScaling"), "criteria-concealment.go: parseProps default NewCriterionScaling")
	emitNumExpr("defaultBoundingScaling", compositeField(funcDecl("lib/model/criteria-bounding/criteria-bounding.go", "DefaultParams"), "CriteriaBounding", "AllowedValuesRangeScaling"), "criteria-bounding.go: DefaultParams AllowedValuesRangeScaling")
	emitNumExpr("defaultApplyProbability", compositeField(funcDecl("lib/model/bias.go", "ChooseBiases"), "BiasParams", "ApplyProbability"), "bias.go: ChooseBiases default ApplyProbability")
	currentRel = "lib/logic/limited-rationality/majority/draw-resolution.go"
	rwv, rwok := uniqueCmp(comparedWithCall(currentRel, "generator"), "<")
	emitConst("randomWinnerHalf", rwv, rwok, "draw-resolution.go: RandomWinnerResolver `generator() < 0.5`")
	currentRel = "lib/logic/biases/fatigue/fatigue.go"
	fsv, fsok := uniqueCmp(comparedWithCall(currentRel, "signGenerator"), ">=")
	emitConst("fatigueSignHalf", fsv, fsok, "fatigue.go: `signGenerator() >= 0.5`")
	currentRel = "lib/logic/limited-rationality/aspect-elimination/aspect-elimination.go"
	asv, asok := uniqueCmp(comparedWithCall(currentRel, "generator"), "<")
	emitConst("aspectTieHalf", asv, asok, "aspect-elimination.go: sortCriteria `generator() < 0.5`")
	currentRel = ""

	// ---- identifier strings
	out.WriteString("\n")
	for _, s := range [][3]string{
		{"methodWeightedSum", "lib/logic/preference-func/weighted-sum/weighted-sum.go", "methodName"},
		{"methodOwa", "lib/logic/preference-func/owa/owa.go", "methodName"},
		{"methodChoquet", "lib/logic/preference-func/choquet/choquet-integral.go", "methodName"},
		{"methodElectre", "lib/logic/preference-func/electreIII/electre_III.go", "methodName"},
		{"methodMajority", "lib/logic/limited-rationality/majority/majority.go", "methodName"},
		{"methodAspect", "lib/logic/limited-rationality/aspect-elimination/aspect-elimination.go", "methodName"},
		{"methodSatisfaction", "lib/logic/limited-rationality/satisfaction/satisfaction.go", "methodName"},
		{"biasOmission", "lib/logic/biases/criteria-omission/criteria-omission.go", "BiasName"},
		{"biasReversal", "lib/logic/biases/preference-reversal/preference-reversal.go", "BiasName"},
		{"biasFatigue", "lib/logic/biases/fatigue/fatigue.go", "BiasName"},
		{"biasConcealment", "lib/logic/biases/criteria-concealment/criteria-concealment.go", "BiasName"},
		{"biasMixing", "lib/logic/biases/criteria-mixing/criteria-mixing.go", "BiasName"},
		{"biasAnchoring", "lib/logic/biases/anchoring/anchoring.go", "BiasName"},
		{"orderingWeakest", "lib/model/criteria-ordering/weakest-criteria-resolver.go", "WeakestCriteriaFirst"},
		{"orderingStrongest", "lib/model/criteria-ordering/strongest-criteria-resolver.go", "StrongestCriteriaFirst"},
		{"orderingRandom", "lib/model/criteria-ordering/random-criteria-resolver.go", "RandomCriteria"},
		{"orderingWeakestByProbability", "lib/model/criteria-ordering/weakest-by-probability-criteria-resolver.go", "WeakestByProbabilityCriteriaFirst"},
		{"orderingStrongestByProbability", "lib/model/criteria-ordering/strongest-by-probability-criteria-resolver.go", "StrongestByProbabilityCriteriaFirst"},
		{"drawAllow", "lib/logic/limited-rationality/majority/draw-resolution.go", "DrawAllowedResolverName"},
		{"drawCurrent", "lib/logic/limited-rationality/majority/draw-resolution.go", "CurrentIsWinnerResolverName"},
		{"drawNewer", "lib/logic/limited-rationality/majority/draw-resolution.go", "NewerIsWinnerResolverName"},
		{"drawRandom", "lib/logic/limited-rationality/majority/draw-resolution.go", "RandomIsWinnerResolverName"},
		{"levelsThresholds", "lib/logic/limited-rationality/satisfaction-levels/threshold-satisfaction-levels.go", "Thresholds"},
		{"levelsIncreasingMul", "lib/logic/limited-rationality/satisfaction-levels/increasing-coefficient.go", "IdealIncreasingMul"},
		{"levelsAdditive", "lib/logic/limited-rationality/satisfaction-levels/increasing-coefficient.go", "IdealAdditive"},
		{"levelsDecreasingMul", "lib/logic/limited-rationality/satisfaction-levels/decreasing-coefficient.go", "IdealDecreasingMul"},
		{"levelsSubtractive", "lib/logic/limited-rationality/satisfaction-levels/decreasing-coefficient.go", "IdealSubtractive"},
		{"refImportanceRatio", "lib/model/reference-criterion/importance-reference-criterion.go", "ImportanceRatioReferenceCriterion"},
		{"refRandomUniform", "lib/model/reference-criterion/random-uniform-reference-criterion.go", "RandomUniformReferenceCriterion"},
		{"refRandomWeighted", "lib/model/reference-criterion/random-weighted-reference-criterion.go", "RandomWeightedReferenceCriterion"},
		{"fatigueConst", "lib/logic/biases/fatigue/const-fatigue-func.go", "FatConstFunc"},
		{"fatigueExp", "lib/logic/biases/fatigue/exp-fatigue-func.go", "FatExpFromZero"},
		{"anchoringIdeal", "lib/logic/biases/anchoring/ideal-reference-alternative-evaluator.go", "IdealReferenceAltEvaluator"},
		{"anchoringNadir", "lib/logic/biases/anchoring/ideal-reference-alternative-evaluator.go", "NadirReferenceAltEvaluator"},
		{"anchoringInline", "lib/logic/biases/anchoring/inline-anchoring-applier.go", "InlineAnchoringApplierName"},
		{"anchoringNewCriterion", "lib/logic/biases/anchoring/new-criterion-anchoring-applier.go", "NewCriterionAnchoringApplierName"},
		{"concealedBaseName", "lib/logic/biases/criteria-concealment/criterion-addition.go", "baseConcealedCriterionName"},
		{"criteriaSeparator", "lib/logic/preference-func/choquet/choquet-integral_parsing.go", "criteriaSeparator"},
		{"critGain", "lib/model/criterion.go", "Gain"},
		{"critCost", "lib/model/criterion.go", "Cost"},
		{"paramWeights", "lib/model/decision-maker-helpers.go", "WeightsParam"},
		{"paramElectreDistillation", "lib/logic/preference-func/electreIII/electre_III_parsing.go", "distillationFun"},
		{"paramElectreCriteria", "lib/logic/preference-func/electreIII/electre_III_parsing.go", "criteria"},
	} {
		emitStrDecl(s[0], s[1], s[2])
	}

	// ---- wiring of httpClient/main.go
	out.WriteString("\n")
	const mainGo = "httpClient/main.go"
	emitStrList("wiringIncreasingLevels", elemNames(declValue(mainGo, "increasingSatisfactionLevels")), "main.go: increasingSatisfactionLevels (aspect elimination)")
	emitStrList("wiringDecreasingLevels", elemNames(declValue(mainGo, "decreasingSatisfactionLevels")), "main.go: decreasingSatisfactionLevels (satisfaction)")
	emitStrList("wiringOrderings", elemNames(declValue(mainGo, "criteriaOrdering")), "main.go: criteriaOrdering (first = default)")
	fl := compositeField(declValue(mainGo, "funcs"), "PreferenceFunctions", "Functions")
	emitStrList("wiringFunctions", elemNames(fl), "main.go: funcs.Functions")
	emitStrList("wiringListeners", elemNames(compositeField(declValue(mainGo, "biasListeners"), "BiasListeners", "Listeners")), "main.go: biasListeners.Listeners")
	// draw resolvers passed to NewMajority; level sources passed to the two heuristics
	var draws, aspectArg, satisfArg []string
	if cl, ok := fl.(*ast.CompositeLit); ok {
		for _, el := range cl.Elts {
			c, ok := el.(*ast.CallExpr)
			if !ok {
				continue
			}
			switch exprName(c.Fun) {
			case "NewMajority":
				if len(c.Args) == 2 {
					draws = elemNames(c.Args[1])
				}
			case "NewAspectEliminationHeuristic":
				if len(c.Args) == 2 {
					aspectArg = []string{exprName(c.Args[0]), exprName(c.Args[1])}
				}
			case "NewSatisfaction":
				if len(c.Args) == 2 {
					satisfArg = []string{exprName(c.Args[1]), exprName(c.Args[0])}
				}
			}
		}
	}
	emitStrList("wiringDrawResolvers", draws, "main.go: NewMajority draw resolvers (first = default)")
	emitStrList("wiringAspectArgs", aspectArg, "main.go: NewAspectEliminationHeuristic(levels, generator)")
	emitStrList("wiringSatisfactionArgs", satisfArg, "main.go: NewSatisfaction(generator, levels) as [levels, generator]")
	emitStrList("wiringRefCriterionFactories", elemNames(firstArg(declValue(mainGo, "referenceCriterionManager"))), "main.go: referenceCriterionManager factories (first = default)")
	// fatigue: both generator sources and the functions
	var fatigueArgs []string
	ast.Inspect(file(mainGo), func(n ast.Node) bool {
		if c, ok := n.(*ast.CallExpr); ok && exprName(c.Fun) == "NewFatigue" && len(c.Args) == 3 {
			fatigueArgs = []string{exprName(c.Args[0]), exprName(c.Args[1])}
		}
		return true
	})
	emitStrList("wiringFatigueGenerators", fatigueArgs, "main.go: NewFatigue(valueGenerator, signGenerator, …)")

	{
		q := make([]string, len(stale))
		for i, s := range stale {
			q[i] = strconv.Quote(s)
		}
		fmt.Fprintf(&out, "\n/-- facts whose source query no longer resolves in the working tree (their value above is the pinned fallback) -/\ndef staleFacts : List String := [%s]\n", strings.Join(q, ", "))
	}
	out.WriteString("\nend Rdm.Facts\n")
	if len(failed) > 0 {
		for _, f := range failed {
			fmt.Fprintln(os.Stderr, "facts:", f)
		}
		os.Exit(1)
	}
	if outPath == "" {
		fmt.Print(out.String())
		return
	}
	old, _ := os.ReadFile(outPath)
	if string(old) != out.String() {
		if err := os.WriteFile(outPath, []byte(out.String()), 0644); err != nil {
			fmt.Fprintln(os.Stderr, err)
			os.Exit(1)
		}
	}
}

func allSame(l []float64) bool {
	for _, x := range l {
		if x != l[0] {
			return false
		}
	}
	return true
}

func first(l []float64) float64 {
	if len(l) == 0 {
		return math.NaN()
	}
	return l[0]
}

func firstCmp(l []struct {
	Op  string
	Val float64
}) float64 {
	if len(l) == 0 {
		return math.NaN()
	}
	return l[0].Val
}

func firstArg(e ast.Expr) ast.Expr {
	// *reference_criterion.NewReferenceCriteriaManager([]…{…})
	if s, ok := e.(*ast.StarExpr); ok {
		e = s.X
	}
	if c, ok := e.(*ast.CallExpr); ok && len(c.Args) > 0 {
		return c.Args[0]
	}
	return nil
}
