module rdmfacts

go 1.23
